#!/usr/bin/env python3
"""Calibration against seeded changes.

  tools/seeded.py import  <ID> <mN>    verify an agent's change in its scratch worktree (/tmp/wt/<ID>) and store it under seeded/<ID>-<mN>/
  tools/seeded.py run     <name> [quick|thorough]   apply seeded/<name>/patch.diff to /repo, run the check, undo, record the outcome in meta.json
  tools/seeded.py runall  [quick|thorough]          run every stored change that has no result for that tier yet
  tools/seeded.py table                              print RESULTS.md
Nothing is ever committed to /repo; the patch is undone straight after the run (git checkout -- .).
"""
import json
import os
import re
import shutil
import subprocess
import sys
import time

ROOT = os.path.dirname(os.path.dirname(os.path.abspath(__file__)))
SEEDED = os.path.join(ROOT, "seeded")
PY = "/venv/bin/python"


def sh(cmd, cwd=None, env=None, timeout=3600):
    p = subprocess.run(cmd, shell=True, cwd=cwd, env=env, capture_output=True, text=True, timeout=timeout)
    return p.returncode, p.stdout + p.stderr


def do_import(pid, m):
    wt = "/tmp/wt/%s" % pid
    env = dict(os.environ, PYTHONPATH=wt + "/lib")
    diff, demo, meta = ("%s/%s%s" % (wt, m, s) for s in (".diff", "_demo.py", "_meta.json"))
    for f in (diff, demo, meta):
        if not os.path.exists(f):
            print("missing", f)
            return 1
    rc, out = sh("git status --short --untracked-files=no", cwd=wt)
    if out.strip():
        print("worktree not pristine:", out)
        return 1
    rc0, out0 = sh("%s %s" % (PY, demo), cwd=wt, env=env, timeout=600)
    rc, out = sh("git apply %s" % diff, cwd=wt)
    if rc:
        print("patch does not apply:", out)
        return 1
    try:
        rc_t, out_t = sh("%s -m pytest -q -p no:cacheprovider --timeout=900 -x" % PY, cwd=wt, env=env)
        rc1, out1 = sh("%s %s" % (PY, demo), cwd=wt, env=env, timeout=600)
    finally:
        sh("git checkout -- .", cwd=wt)
    tests_ok = rc_t == 0 and " passed" in out_t and "failed" not in out_t.splitlines()[-1]
    ok = rc0 == 0 and tests_ok and rc1 != 0
    print("%s %s: demo pristine rc=%d, tests with change %s, demo with change rc=%d -> %s" % (
        pid, m, rc0, "pass" if tests_ok else "FAIL", rc1, "KEEP" if ok else "REJECT"))
    if not ok:
        print(out_t[-300:], out1[-300:])
        return 1
    d = os.path.join(SEEDED, "%s-%s" % (pid, m))
    os.makedirs(d, exist_ok=True)
    shutil.copy(diff, os.path.join(d, "patch.diff"))
    shutil.copy(demo, os.path.join(d, "demo.py"))
    mj = json.load(open(meta))
    mj.update({"property": pid, "verified": {
        "how": "applied in scratch worktree /tmp/wt/%s: test-suite `%s -m pytest -q -p no:cacheprovider --timeout=900` passes with the change; demo.py exits %d with the change and 0 without" % (pid, PY, rc1),
        "tests_tail": out_t.strip().splitlines()[-1][-120:], "demo_fail_tail": out1.strip()[-400:]}, "results": mj.get("results", {})})
    json.dump(mj, open(os.path.join(d, "meta.json"), "w"), indent=1)
    return 0


def do_run(name, tier):
    d = os.path.join(SEEDED, name)
    meta = json.load(open(os.path.join(d, "meta.json")))
    pid = meta["property"]
    rc, out = sh("git status --short --untracked-files=no", cwd="/repo")
    if out.strip():
        print("/repo not clean, refusing:", out)
        return 2
    rc, out = sh("git apply %s" % os.path.join(d, "patch.diff"), cwd="/repo")
    if rc:
        print("patch does not apply to /repo:", out)
        return 2
    t0 = time.time()
    try:
        # evidence of runs on a changed tree is kept apart from the committed evidence of the real tree
        rc, out = sh("./check %s --tier %s" % (pid, tier), cwd=ROOT, timeout=6 * 3600,
                     env=dict(os.environ, VERIF_EVIDENCE_DIR=os.path.join(ROOT, ".cache", "seeded-evidence")))
    finally:
        sh("git checkout -- .", cwd="/repo")
    viol = [l for l in out.splitlines() if l.startswith("VIOLATION")]
    msgs = []
    lines = out.splitlines()
    for i, l in enumerate(lines):
        if l.startswith("VIOLATION") and i + 1 < len(lines):
            msgs.append(lines[i + 1].strip()[:200])
    caught = rc == 1 and bool(viol)
    meta.setdefault("results", {})[tier] = {"caught": caught, "exit": rc, "violations": len(viol), "first": msgs[:2],
                                             "wall_s": round(time.time() - t0), "at": round(time.time()), "repo_head": sh("git rev-parse --short HEAD", cwd="/repo")[1].strip(), "cmd": "./check %s --tier %s" % (pid, tier)}
    json.dump(meta, open(os.path.join(d, "meta.json"), "w"), indent=1)
    print("%s %s: %s (%d violations, %ds) %s" % (name, tier, "CAUGHT" if caught else "missed", len(viol), time.time() - t0, msgs[:1]))
    return 0


def do_probe(name, args):
    """Development aid: run the check against the scratch worktree with the change applied (does not touch /repo,
    records nothing).  The recorded results always come from `run`, i.e. from /repo itself."""
    d = os.path.join(SEEDED, name)
    pid = json.load(open(os.path.join(d, "meta.json")))["property"]
    wt = "/tmp/wt/%s" % pid
    if name != "clean":
        rc, out = sh("git apply %s" % os.path.join(d, "patch.diff"), cwd=wt)
        if rc:
            print("patch does not apply:", out)
            return 2
    try:
        env = dict(os.environ, VERIF_REPO_LIB=wt + "/lib", VERIF_EVIDENCE_DIR=os.path.join(ROOT, ".cache", "probe-evidence", name))
        rc, out = sh("./check %s %s" % (pid, " ".join(args)), cwd=ROOT, timeout=6 * 3600, env=env)
    finally:
        sh("git checkout -- .", cwd=wt)
    print(out[-3000:])
    print("exit", rc)
    return 0


def table():
    rows = []
    for name in sorted(os.listdir(SEEDED)):
        mp = os.path.join(SEEDED, name, "meta.json")
        if not os.path.exists(mp):
            continue
        m = json.load(open(mp))
        r = m.get("results", {})
        def cell(t):
            if t not in r:
                return "-"
            return "caught" if r[t]["caught"] else "missed"
        rows.append("| %s | %s | %s | %s | %s |" % (name, m.get("summary", "")[:110].replace("|", "/"), m.get("needs", "")[:90].replace("|", "/"), cell("quick"), cell("thorough")))
    txt = "# Seeded changes: which tier catches which\n\n| change | what was changed | needs | quick | thorough |\n|---|---|---|---|---|\n" + "\n".join(rows) + "\n"
    open(os.path.join(SEEDED, "RESULTS.md"), "w").write(txt)
    print(txt)


def main():
    cmd = sys.argv[1]
    if cmd == "import":
        return do_import(sys.argv[2], sys.argv[3])
    if cmd == "probe":
        return do_probe(sys.argv[2], sys.argv[3:])
    if cmd == "run":
        return do_run(sys.argv[2], sys.argv[3] if len(sys.argv) > 3 else "quick")
    if cmd == "runall":
        tier = sys.argv[2] if len(sys.argv) > 2 else "quick"
        for name in sorted(os.listdir(SEEDED)):
            mp = os.path.join(SEEDED, name, "meta.json")
            if os.path.exists(mp) and tier not in json.load(open(mp)).get("results", {}):
                do_run(name, tier)
        return 0
    if cmd == "rerun":
        # run again every change whose recorded result is older than `stamp` (seconds since the epoch)
        import re as _re
        tier, stamp = sys.argv[2], float(sys.argv[3])
        rx = _re.compile(sys.argv[4] if len(sys.argv) > 4 else ".")
        for name in sorted(os.listdir(SEEDED)):
            mp = os.path.join(SEEDED, name, "meta.json")
            if rx.search(name) and os.path.exists(mp) and json.load(open(mp)).get("results", {}).get(tier, {}).get("at", 0) < stamp:
                do_run(name, tier)
        return 0
    if cmd == "table":
        return table()


if __name__ == "__main__":
    sys.exit(main())
