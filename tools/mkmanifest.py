#!/usr/bin/env python3
"""Regenerate /verif/MANIFEST.json from the harness modules (each carries a MANIFEST dict)."""
import ast
import json
import os
import sys

ROOT = os.path.dirname(os.path.dirname(os.path.abspath(__file__)))
IDS = ["C%02d" % i for i in range(1, 21)]
NA_REASONS = {}


def harness_meta(pid):
    path = os.path.join(ROOT, "vf", "harness", pid.lower() + ".py")
    if not os.path.exists(path):
        return None
    tree = ast.parse(open(path).read())
    for node in tree.body:
        if isinstance(node, ast.Assign) and getattr(node.targets[0], "id", "") == "MANIFEST":
            v = node.value
            if isinstance(v, ast.Call):
                return {k.arg: ast.literal_eval(k.value) for k in v.keywords}
            return ast.literal_eval(v)
    return None


def main():
    checks, na, served = [], [], {"A": [], "B": [], "C": []}
    for pid in IDS:
        m = harness_meta(pid)
        if not m:
            na.append({"property_id": pid, "reason": NA_REASONS.get(pid, "check not built yet (see DESIGN.md section 3 for the plan)")})
            continue
        for e in m.get("engines", "A"):
            served[e].append(pid)
        checks.append({
            "property_id": pid,
            "quick_cmd": "./check %s --tier quick" % pid,
            "thorough_cmd": "./check %s --tier thorough" % pid,
            "evidence_file": "/verif/evidence/%s.json" % pid,
            "replay_cmd_template": "./check replay {path}",
            "engine": "+".join(m.get("engines", "A")),
            "level_claimed": {"category": "model_checking", "text": m["text"], "design_ref": "DESIGN.md section 3, " + pid},
            "level_note": m["note"],
            "technique": m["technique"],
        })
    man = {
        "version": 1,
        "setup_cmd": "sh ./setup.sh",
        "hooks": {
            "guard": "PYTHON_DEBIAN_VERIF",
            "enable": "no source hooks exist: harnesses import debian.* from /repo/lib (the working tree) and stub the environment from outside through module globals; ./check exports PYTHON_DEBIAN_VERIF=1 but nothing in /repo reads it",
            "baseline_off_cmd": "cd /repo && /venv/bin/python -m pytest -ra -q -p no:cacheprovider --timeout=900 --continue-on-collection-errors",
            "source_commits": [],
            "add_only": True,
        },
        "engines": [
            {"name": "A-crosshair", "path": "vf/xh.py", "serves_properties": served["A"],
             "kind_free_text": "symbolic execution of the real Python functions (CrossHair 0.0.110 as a library + z3 5.1, model repairs in vf/xh_plugin.py); one solver-decided path per iteration; 'confirmed' = every feasible path within the stated bound executed"},
            {"name": "B-re2smt", "path": "vf/re2smt.py", "serves_properties": served["B"],
             "kind_free_text": "the live compiled regex objects of debian.* translated to z3 regular-expression terms; language inclusion/equivalence queries over strings of unbounded length (code points <= U+2FFFF)"},
            {"name": "C-pysym", "path": "vf/pysym.py", "serves_properties": served["C"],
             "kind_free_text": "AST->SMT translation with state merging of the version-comparison kernel, re-read from the current source each run; bounded strings; unwinding assertions discharged as separate queries"},
        ],
        "checks": checks,
        "notes": "Solver-based checking of the real code; every counterexample is replayed on plain CPython before it is reported. See DESIGN.md.",
        "not_applicable": na,
    }
    with open(os.path.join(ROOT, "MANIFEST.json"), "w") as f:
        json.dump(man, f, indent=1)
    print("claimed:", [c["property_id"] for c in checks])


if __name__ == "__main__":
    main()
