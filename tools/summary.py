#!/usr/bin/env python3
"""Print one line per evidence file: tier, partitions, verdict counts, paths, queries, wall.
Usage: tools/summary.py [evidence-dir]   (default /verif/evidence)"""
import glob
import json
import os
import sys

d = sys.argv[1] if len(sys.argv) > 1 else os.path.join(os.path.dirname(os.path.dirname(os.path.abspath(__file__))), "evidence")
print("| id | tier | seed | partitions | confirmed | inconclusive | paths | queries (unsat/sat/unknown) | wall s | violations |")
print("|---|---|---|---|---|---|---|---|---|---|")
for f in sorted(glob.glob(os.path.join(d, "*.json"))):
    e = json.load(open(f))
    c = e.get("coverage", {})
    pd = c.get("partition_detail") or []
    conf = sum(1 for p in pd if p.get("verdict") == "confirmed")
    other = len(pd) - conf
    paths = sum((p.get("paths") or {}).get("total", 0) if isinstance(p.get("paths"), dict) else (p.get("paths") or 0) for p in pd)
    q = {"unsat": 0, "sat": 0, "unknown": 0}
    for p in pd:
        for k in q:
            q[k] += (p.get("queries") or {}).get(k, 0)
    print("| %s | %s | %s | %d | %d | %d | %s | %d/%d/%d | %s | %d |" % (
        e.get("property_id"), e.get("tier"), e.get("seed"), len(pd), conf, other, paths, q["unsat"], q["sat"], q["unknown"],
        e.get("wall_s"), (lambda v: v if isinstance(v, int) else len(v or []))(e.get("violations"))))
