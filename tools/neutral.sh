#!/bin/sh
# Applies each neutral edit (seeded/neutral/*.diff) to /repo, runs the test-suite and the property's quick check
# (must exit 0 without VIOLATION), undoes the edit.  Writes seeded/NEUTRAL.md.
cd /verif
out=seeded/NEUTRAL.md
echo "# Neutral edits: changes that keep the property and must not alarm" > $out
echo "" >> $out
echo "| edit | property | what | tests | quick check |" >> $out
echo "|---|---|---|---|---|" >> $out
for d in seeded/neutral/*.diff; do
  n=$(basename $d .diff)
  prop=$(sed -n 1p seeded/neutral/$n.txt); what=$(sed -n 2p seeded/neutral/$n.txt)
  git -C /repo diff --quiet || { echo "/repo dirty"; exit 2; }
  git -C /repo apply $PWD/$d || { echo "$n does not apply"; continue; }
  t=$(cd /repo && /venv/bin/python -m pytest -q -p no:cacheprovider --timeout=900 2>&1 | tail -1 | cut -c1-40)
  VERIF_EVIDENCE_DIR=$PWD/.cache/neutral-evidence ./check $prop --tier quick > /tmp/neutral_$n.log 2>&1; rc=$?
  v=$(grep -c '^VIOLATION' /tmp/neutral_$n.log)
  git -C /repo checkout -- .
  res="exit $rc, $v violations"; [ $rc -eq 0 ] && [ $v -eq 0 ] && res="silent (exit 0)"
  echo "| $n | $prop | $what | $t | $res |" >> $out
  echo "$n: $res ($t)"
done
