#!/bin/sh
# Idempotent, offline: overlay venv of /venv + crosshair-tool (pulls z3-solver) from the wheelhouse.
set -e
cd "$(dirname "$0")"
mkdir -p evidence
if [ -x .venv/bin/python ] && .venv/bin/python -c "import crosshair, z3" 2>/dev/null; then exit 0; fi
rm -rf .venv
/venv/bin/python -m venv .venv
SP=$(.venv/bin/python -c "import site;print(site.getsitepackages()[0])")
printf '/venv/lib/python3.12/site-packages\n/repo/lib\n' > "$SP/vf_overlay.pth"
PIP_NO_INDEX=1 .venv/bin/pip install -q --no-index --find-links /opt/veriftools/wheels crosshair-tool
.venv/bin/python -c "import crosshair, z3, debian"
