"""dpkg's version comparison, written from lib/dpkg/version.c (order, verrevcmp,
dpkg_version_compare).  Plain Python restricted to the pysym subset, so that the
same text is (a) executed concretely as the replay oracle and (b) translated to
SMT as the specification side of the C03 equivalence query."""


def isdigit_at(s, i):
    if i >= len(s):
        return False
    c = ord(s[i])
    return 48 <= c and c <= 57


def order(s, i):
    # order() of the character at s[i]; the terminating NUL and digits order as 0
    if i >= len(s):
        return 0
    c = ord(s[i])
    if 48 <= c and c <= 57:
        return 0
    if (65 <= c and c <= 90) or (97 <= c and c <= 122):
        return c
    if c == 126:
        return -1
    return c + 256


def verrevcmp(a, b):
    i = 0
    j = 0
    while i < len(a) or j < len(b):
        first_diff = 0
        while (i < len(a) and not isdigit_at(a, i)) or (j < len(b) and not isdigit_at(b, j)):
            ac = order(a, i)
            bc = order(b, j)
            if ac != bc:
                return ac - bc
            i = i + 1
            j = j + 1
        while i < len(a) and ord(a[i]) == 48:
            i = i + 1
        while j < len(b) and ord(b[j]) == 48:
            j = j + 1
        while isdigit_at(a, i) and isdigit_at(b, j):
            if first_diff == 0:
                first_diff = ord(a[i]) - ord(b[j])
            i = i + 1
            j = j + 1
        if isdigit_at(a, i):
            return 1
        if isdigit_at(b, j):
            return -1
        if first_diff != 0:
            return first_diff
    return 0


def epoch_value(e):
    return int(e or "0")


def revision_or_empty(r):
    return r or ""


def dpkg_compare(ea, ua, ra, eb, ub, rb):
    x = epoch_value(ea)
    y = epoch_value(eb)
    if x > y:
        return 1
    if x < y:
        return -1
    rc = verrevcmp(ua, ub)
    if rc != 0:
        return rc
    return verrevcmp(revision_or_empty(ra), revision_or_empty(rb))


def sign(x):
    return (x > 0) - (x < 0)
