"""Independent line scanner for deb822 documents (written from Policy 5.1 / deb822(5)):
paragraphs, fields with their attached comment lines, and values.  Used as the reference
model for the format-preserving parser properties (C05, C10, C11)."""


def split_lines(text):
    """Lines with their terminators (only '\\n' terminates a line here)."""
    out, cur = [], ""
    for ch in text:
        cur += ch
        if ch == "\n":
            out.append(cur)
            cur = ""
    if cur:
        out.append(cur)
    return out


def is_blank(line):
    return line.strip(" \t\r\n\x0b\x0c") == ""


class Field:
    def __init__(self, name, comments, lines, start):
        self.name = name            # original spelling
        self.comments = comments    # comment lines directly above the field
        self.lines = lines          # field line + continuation lines (+ comment lines inside the value)
        self.start = start          # index of the first comment line (or of the field line) in the document
        self.first = start + len(comments)   # index of the field line itself
        self.end = self.first + len(lines)   # one past the last line

    @property
    def value(self):
        first = self.lines[0]
        v = first[first.index(":") + 1:].strip()
        rest = [l for l in self.lines[1:] if not l.startswith("#")]
        out = v
        for l in rest:
            out += "\n" + (l[:-1] if l.endswith("\n") else l)
        return out

    @property
    def text(self):
        return "".join(self.comments) + "".join(self.lines)


def scan(text):
    """-> (lines, paragraphs) where paragraphs is a list of lists of Field."""
    lines = split_lines(text)
    paras, cur, pending = [], None, []
    i, n = 0, len(lines)
    while i < n:
        l = lines[i]
        if is_blank(l):
            if cur:
                paras.append(cur)
            cur, pending = None, []
            i += 1
        elif l.startswith("#"):
            pending.append(l)
            i += 1
        elif l[0] in " \t":
            raise ValueError("continuation line outside a field: %r" % l)
        else:
            name = l[:l.index(":")]
            start = i - len(pending)
            j = i + 1
            flines = [l]
            while j < n:
                m = lines[j]
                if m and m[0] in " \t" and not is_blank(m):
                    flines.append(m)
                    j += 1
                elif m.startswith("#"):
                    # a comment inside the value only if a continuation line follows the comment run
                    k = j
                    while k < n and lines[k].startswith("#"):
                        k += 1
                    if k < n and lines[k] and lines[k][0] in " \t" and not is_blank(lines[k]):
                        flines.extend(lines[j:k])
                        j = k
                    else:
                        break
                else:
                    break
            if cur is None:
                cur = []
            cur.append(Field(name, list(pending), flines, start))
            pending = []
            i = j
    if cur:
        paras.append(cur)
    return lines, paras


def as_items(paras):
    return [[(f.name, f.value) for f in p] for p in paras]
