"""vf -- solver-based checking of python-debian (see /verif/DESIGN.md)."""
