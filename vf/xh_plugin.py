"""CrossHair 0.0.110 model repairs (DESIGN.md section 2.2).

Only CrossHair's *models* of the standard library are changed here, never the
code under test.  Every repair is validated by `vf.selftest` against CPython's
`re`; and because every counterexample is replayed on plain CPython (rule 1.2)
a wrong model can cost detections but cannot raise an alarm.
"""
import re
import sys

from crosshair import core
from crosshair.core import realize, register_patch
from crosshair.libimpl import relib
from crosshair.tracers import NoTracing, ResumedTracing
from crosshair.libimpl.builtinslib import AnySymbolicStr

_APPLIED = False


def _rewrite_dollar(tree, flags):
    r"""`$` without MULTILINE: matches at end or before a final newline.

    CrossHair models it as end-of-string only.  Rewrite (AT, AT_END) into the
    look-ahead (?=\n?\Z), which its matcher handles."""
    multiline = bool(flags & re.MULTILINE)

    def fix_seq(seq):
        out = []
        for op, arg in seq:
            out.append(fix_node(op, arg))
        return out

    def fix_node(op, arg):
        if op is relib.AT and arg is relib.AT_END and not multiline:
            return (relib.ASSERT, (1, _DOLLAR_TAIL()))
        if op is relib.SUBPATTERN:
            g, a, d, sub = arg
            return (op, (g, a, d, _wrap(sub, fix_seq(sub))))
        if op in (relib.MAX_REPEAT, relib.MIN_REPEAT):
            lo, hi, sub = arg
            return (op, (lo, hi, _wrap(sub, fix_seq(sub))))
        if op is relib.BRANCH:
            x, alts = arg
            return (op, (x, [_wrap(a, fix_seq(a)) for a in alts]))
        if op in (relib.ASSERT, relib.ASSERT_NOT):
            d, sub = arg
            return (op, (d, _wrap(sub, fix_seq(sub))))
        return (op, arg)

    return _wrap(tree, fix_seq(tree))


def _wrap(orig, items):
    """Keep the SubPattern container type CrossHair iterates over."""
    try:
        new = type(orig)(orig.state, list(items))
        return new
    except Exception:
        return list(items)


_TAIL_CACHE = []


def _DOLLAR_TAIL():
    if not _TAIL_CACHE:
        _TAIL_CACHE.append(_ORIG_PARSE(r"\n?\Z", 0))
    return _TAIL_CACHE[0]


_ORIG_PARSE = relib.parse
_PARSE_CACHE = {}


def _parse(pattern, flags=0, *a):
    key = (pattern, flags)
    hit = _PARSE_CACHE.get(key)
    if hit is None:
        tree = _ORIG_PARSE(pattern, flags, *a)
        hit = _rewrite_dollar(tree, flags)
        _PARSE_CACHE[key] = hit
    # callers append to the parsed list (see _fullmatch) -> hand out a copy
    return type(hit)(hit.state, list(hit)) if hasattr(hit, "state") else list(hit)


def _groupdict(self, default=None):
    ret = {}
    for name, idx in self.re.groupindex.items():
        v = self.group(idx)
        ret[name] = default if v is None else v
    return ret


def _unicode_ignorecase_mask(cp):
    mask = relib._UNICODE_IGNORECASE_MASKS.get(cp)
    if mask is None:
        chars = relib.caseable_chars()
        matches = re.compile(re.escape(chr(cp)), re.IGNORECASE).findall(chars)
        mask = relib.CharMask([ord(c) for c in matches])
        relib._UNICODE_IGNORECASE_MASKS[cp] = mask
    return mask


def _findall(self, string, pos=0, endpos=None):
    """re.Pattern.findall over the symbolic finditer (stock: realises subject)."""
    with NoTracing():
        symbolic = isinstance(string, (AnySymbolicStr, relib.BytesLike))
    if not symbolic:
        with NoTracing():
            s = realize(string)
            if endpos is None:
                return re.Pattern.findall(self, s, realize(pos))
            return re.Pattern.findall(self, s, realize(pos), realize(endpos))
    out = []
    ngroups = self.groups
    for m in relib._finditer(self, string, pos, endpos):
        if ngroups == 0:
            out.append(m.group(0))
        elif ngroups == 1:
            g = m.group(1)
            out.append("" if g is None else g)
        else:
            out.append(tuple("" if g is None else g for g in m.groups()))
    return out


def _search(self, string, pos=0, endpos=None):
    """Stock `_search` never tries the empty match at end-of-string."""
    chr_, ord_ = relib._check_str_or_bytes(self, string)
    if not isinstance(pos, int):
        raise TypeError
    if not (endpos is None or isinstance(endpos, int)):
        raise TypeError
    pos, endpos = realize(pos), realize(endpos)
    mylen = string.__len__()
    with NoTracing():
        if isinstance(string, (AnySymbolicStr, relib.BytesLike)):
            pos, endpos, _ = slice(pos, endpos, 1).indices(realize(mylen))
            try:
                while pos <= endpos:
                    match = relib._match_pattern(
                        self, string, pos, endpos, chr=chr_, ord=ord_
                    )
                    if match:
                        return match
                    pos += 1
                return None
            except relib.ReUnhandled:
                pass
        if endpos is None:
            return re.Pattern.search(self, realize(string), pos)
        return re.Pattern.search(self, realize(string), pos, endpos)


def _intern(s):
    return s


def apply():
    global _APPLIED
    if _APPLIED:
        return
    _APPLIED = True
    relib.parse = _parse
    relib._Match.groupdict = _groupdict
    relib.unicode_ignorecase_mask = _unicode_ignorecase_mask
    core._PATCH_REGISTRATIONS[re.Pattern.findall] = _findall
    core._PATCH_REGISTRATIONS[re.Pattern.search] = _search
    try:
        register_patch(sys.intern, _intern)
    except Exception:
        core._PATCH_REGISTRATIONS[sys.intern] = _intern


REPAIRS = [
    "regex `$` (non-MULTILINE) modelled as (?=\\n?\\Z) instead of \\Z",
    "re.Pattern.findall built on the symbolic finditer (stock realises the subject)",
    "re.Pattern.search also tries the empty match at end of string",
    "Match.groupdict returns strings/default (stock returns spans, drops unmatched groups)",
    "IGNORECASE literal masks built from re.escape(chr(cp))",
    "sys.intern modelled as identity",
]
