"""CrossHair 0.0.110 model repairs (DESIGN.md section 2.2).

Only CrossHair's *models* of the standard library are changed here, never the
code under test.  Every repair is validated by `vf.selftest` against CPython's
`re`; and because every counterexample is replayed on plain CPython (rule 1.2)
a wrong model can cost detections but cannot raise an alarm.
"""
import re
import sys

from crosshair import core
from crosshair.core import realize, register_patch
from crosshair.libimpl import relib
from crosshair.tracers import NoTracing, ResumedTracing
from crosshair.libimpl.builtinslib import AnySymbolicStr, BytesLike

_SYM_TEXT = (AnySymbolicStr, BytesLike)

_APPLIED = False


def _rewrite_dollar(tree, flags):
    r"""`$` without MULTILINE: matches at end or before a final newline.

    CrossHair models it as end-of-string only.  Rewrite (AT, AT_END) into the
    look-ahead (?=\n?\Z), which its matcher handles."""
    multiline = bool(flags & re.MULTILINE)

    def fix_seq(seq):
        out = []
        for op, arg in seq:
            out.append(fix_node(op, arg))
        return out

    def fix_node(op, arg):
        if op is relib.AT and arg is relib.AT_END and not multiline:
            return (relib.ASSERT, (1, _DOLLAR_TAIL()))
        if op is relib.SUBPATTERN:
            g, a, d, sub = arg
            return (op, (g, a, d, _wrap(sub, fix_seq(sub))))
        if op in (relib.MAX_REPEAT, relib.MIN_REPEAT):
            lo, hi, sub = arg
            return (op, (lo, hi, _wrap(sub, fix_seq(sub))))
        if op is relib.BRANCH:
            x, alts = arg
            return (op, (x, [_wrap(a, fix_seq(a)) for a in alts]))
        if op in (relib.ASSERT, relib.ASSERT_NOT):
            d, sub = arg
            return (op, (d, _wrap(sub, fix_seq(sub))))
        return (op, arg)

    return _wrap(tree, fix_seq(tree))


def _wrap(orig, items):
    """Keep the SubPattern container type CrossHair iterates over."""
    try:
        new = type(orig)(orig.state, list(items))
        return new
    except Exception:
        return list(items)


_TAIL_CACHE = []


def _DOLLAR_TAIL():
    if not _TAIL_CACHE:
        _TAIL_CACHE.append(_ORIG_PARSE(r"\n?\Z", 0))
    return _TAIL_CACHE[0]


_ORIG_PARSE = relib.parse
_PARSE_CACHE = {}


def _parse(pattern, flags=0, *a):
    key = (pattern, flags)
    hit = _PARSE_CACHE.get(key)
    if hit is None:
        tree = _ORIG_PARSE(pattern, flags, *a)
        hit = _rewrite_dollar(tree, flags)
        _PARSE_CACHE[key] = hit
    # callers append to the parsed list (see _fullmatch) -> hand out a copy
    return type(hit)(hit.state, list(hit)) if hasattr(hit, "state") else list(hit)


def _groupdict(self, default=None):
    ret = {}
    for name, idx in self.re.groupindex.items():
        v = self.group(idx)
        ret[name] = default if v is None else v
    return ret


def _unicode_ignorecase_mask(cp):
    mask = relib._UNICODE_IGNORECASE_MASKS.get(cp)
    if mask is None:
        chars = relib.caseable_chars()
        matches = re.compile(re.escape(chr(cp)), re.IGNORECASE).findall(chars)
        mask = relib.CharMask([ord(c) for c in matches])
        relib._UNICODE_IGNORECASE_MASKS[cp] = mask
    return mask


def _findall(self, string, pos=0, endpos=None):
    """re.Pattern.findall over the symbolic finditer (stock: realises subject)."""
    with NoTracing():
        symbolic = isinstance(string, (AnySymbolicStr, relib.BytesLike))
    if not symbolic:
        with NoTracing():
            s = realize(string)
            if endpos is None:
                return re.Pattern.findall(self, s, realize(pos))
            return re.Pattern.findall(self, s, realize(pos), realize(endpos))
    out = []
    ngroups = self.groups
    for m in relib._finditer(self, string, pos, endpos):
        if ngroups == 0:
            out.append(m.group(0))
        elif ngroups == 1:
            g = m.group(1)
            out.append("" if g is None else g)
        else:
            out.append(tuple("" if g is None else g for g in m.groups()))
    return out


def _search(self, string, pos=0, endpos=None):
    """Stock `_search` never tries the empty match at end-of-string."""
    chr_, ord_ = relib._check_str_or_bytes(self, string)
    if not isinstance(pos, int):
        raise TypeError
    if not (endpos is None or isinstance(endpos, int)):
        raise TypeError
    pos, endpos = realize(pos), realize(endpos)
    mylen = string.__len__()
    with NoTracing():
        if isinstance(string, (AnySymbolicStr, relib.BytesLike)):
            pos, endpos, _ = slice(pos, endpos, 1).indices(realize(mylen))
            try:
                while pos <= endpos:
                    match = relib._match_pattern(
                        self, string, pos, endpos, chr=chr_, ord=ord_
                    )
                    if match:
                        return match
                    pos += 1
                return None
            except relib.ReUnhandled:
                pass
        if endpos is None:
            return re.Pattern.search(self, realize(string), pos)
        return re.Pattern.search(self, realize(string), pos, endpos)


def _intern(s):
    return s


_FMT_RE = re.compile(r"%([sdr%])")


def _percent_format(self, other):
    """`fmt % args` without realising symbolic arguments.

    Supported exactly: formats made of literal text, %%, %s and %d without
    flags/width/mapping keys (concatenation of str(arg)).  `%r` of a *symbolic
    string* is over-approximated by a fresh unconstrained symbolic string:
    python-debian uses %r only inside exception/warning/verbose messages, and an
    over-approximation can only add behaviours (spurious counterexamples are
    filtered by the plain replay), never hide one.  Everything else falls back
    to CrossHair's stock behaviour (realise the arguments)."""
    if not isinstance(self, str):
        raise TypeError
    with NoTracing():
        fmt = realize(self)
        simple = "%" not in _FMT_RE.sub("", fmt)
        pieces = _FMT_RE.split(fmt) if simple else None
    if not simple:
        return fmt.__mod__(core.deep_realize(other))
    nspec = sum(1 for i in range(1, len(pieces), 2) if pieces[i] != "%")
    if isinstance(other, tuple):
        args = list(other)
    else:
        args = [other]
    if len(args) != nspec:
        return fmt.__mod__(core.deep_realize(other))
    out = ""
    k = 0
    for i, piece in enumerate(pieces):
        if i % 2 == 0:
            out = out + piece
            continue
        if piece == "%":
            out = out + "%"
            continue
        a = args[k]
        k += 1
        if piece == "s":
            out = out + str(a)
        elif piece == "d":
            if not isinstance(a, int):
                return fmt.__mod__(core.deep_realize(other))
            out = out + str(a)
        else:
            with NoTracing():
                sym = isinstance(a, _SYM_TEXT)
                if sym:
                    from crosshair.core import proxy_for_type
                    from crosshair.statespace import context_statespace
                    fresh = proxy_for_type(str, "pctr" + context_statespace().uniq())
            if sym:
                out = out + fresh
            else:
                out = out + repr(a)
    return out


def _install_format_value_repr():
    """f-string / optimised %-format `!r` of a symbolic str: fresh symbolic string
    (same over-approximation as in `_percent_format`) instead of realisation."""
    from crosshair import opcode_intercept as oi
    from crosshair.tracers import COMPOSITE_TRACER, frame_stack_read, frame_stack_write
    stock = oi.FormatValueInterceptor.trace_op

    def trace_op(self, frame, codeobj, codenum):
        flags = oi.frame_op_arg(frame)
        if codenum == oi.FORMAT_VALUE and (flags & 0x03) == 0x02:
            value_idx = -2 if (flags & 0x04) else -1
            obj = frame_stack_read(frame, value_idx)
            if isinstance(obj, _SYM_TEXT) and not (flags & 0x04):
                from crosshair.core import proxy_for_type
                from crosshair.statespace import context_statespace
                fresh = proxy_for_type(str, "fmtr" + context_statespace().uniq())
                frame_stack_write(frame, value_idx, "")

                def post_op():
                    frame_stack_write(frame, -1, fresh)

                COMPOSITE_TRACER.set_postop_callback(post_op, frame)
                return
        return stock(self, frame, codeobj, codenum)

    oi.FormatValueInterceptor.trace_op = trace_op


_MASK_TEMPLATES = {}


def _install_fast_charmask():
    """CharMask.smt_matches rebuilt a several-hundred-term Or for \\d / \\w on every call
    (measured: 80% of the time of the C03 harness).  Build it once per mask over a
    placeholder and substitute -- same formula, no semantic change."""
    import z3
    from crosshair import unicode_categories as uc
    stock = uc.CharMask.smt_matches
    ph = z3.Int("vf!cp")

    def smt_matches(self, smt_ch):
        if len(self.parts) <= 6:
            return stock(self, smt_ch)
        key = tuple(self.parts)
        tpl = _MASK_TEMPLATES.get(key)
        if tpl is None:
            tpl = stock(self, ph)
            _MASK_TEMPLATES[key] = tpl
        return z3.substitute(tpl, (ph, smt_ch))

    uc.CharMask.smt_matches = smt_matches


def _install_mask_disk_cache():
    """CrossHair scans all 1.1M code points (3-4 s) per process for isspace()/islower()... masks.
    Cache the scans on disk (keyed by interpreter + Unicode version + code location): pure speed-up."""
    import hashlib
    import os
    import pickle
    import unicodedata
    from functools import lru_cache
    from crosshair import unicode_categories as uc
    root = os.path.dirname(os.path.dirname(os.path.abspath(__file__)))
    cdir = os.path.join(root, ".cache")
    tag = "%s-%s" % (sys.version.split()[0], unicodedata.unidata_version)

    def key_of(fn):
        if getattr(fn, "__closure__", None):
            return None
        code = getattr(fn, "__code__", None)
        if code is None:
            return None
        h = hashlib.sha1(code.co_code + repr(code.co_consts).encode() + repr(code.co_names).encode()).hexdigest()[:16]
        return "%s-%s-%d-%s" % (tag, fn.__qualname__.replace("<", "").replace(">", ""), code.co_firstlineno, h)

    def disk(kind, fn, compute):
        k = key_of(fn)
        if k is None:
            return compute()
        path = os.path.join(cdir, "xhmask-%s-%s.pickle" % (kind, k))
        try:
            with open(path, "rb") as f:
                return pickle.load(f)
        except Exception:
            pass
        val = compute()
        try:
            os.makedirs(cdir, exist_ok=True)
            tmp = "%s.%d.tmp" % (path, os.getpid())
            with open(tmp, "wb") as f:
                pickle.dump(val, f)
            os.replace(tmp, path)
        except Exception:
            pass
        return val

    stock_pred = uc.get_char_predicate_mask.__wrapped__
    stock_map = uc.get_char_fn_map.__wrapped__

    @lru_cache(maxsize=None)
    def get_char_predicate_mask(predicate):
        parts = disk("pred", predicate, lambda: stock_pred(predicate).parts)
        return uc.CharMask(list(parts))

    @lru_cache(maxsize=None)
    def get_char_fn_map(mapping_fn):
        return disk("map", mapping_fn, lambda: stock_map(mapping_fn))

    uc.get_char_predicate_mask = get_char_predicate_mask
    uc.get_char_fn_map = get_char_fn_map

    stock_caseable = relib.caseable_chars

    def caseable_chars():
        if relib._CASEABLE_CHARS is None:
            path = os.path.join(cdir, "xh-caseable-%s.pickle" % tag)
            try:
                with open(path, "rb") as f:
                    relib._CASEABLE_CHARS = pickle.load(f)
            except Exception:
                val = stock_caseable()
                try:
                    os.makedirs(cdir, exist_ok=True)
                    tmp = "%s.%d.tmp" % (path, os.getpid())
                    with open(tmp, "wb") as f:
                        pickle.dump(val, f)
                    os.replace(tmp, path)
                except Exception:
                    pass
        return relib._CASEABLE_CHARS

    relib.caseable_chars = caseable_chars


def _install_constant_fork_fastpath():
    """StateSpace.choose_possible asks the solver (and grows the path tree) even for branch
    conditions that are constants, e.g. a regex class test on a *concrete* character of a partly
    symbolic string.  Decide those by z3.simplify: only one side is feasible anyway, so neither
    the set of explored paths nor exhaustion changes -- pure speed-up."""
    import z3
    from crosshair import statespace as ss
    stock = ss.StateSpace.choose_possible

    def choose_possible(self, expr, probability_true=None):
        try:
            simp = z3.simplify(expr)
            if z3.is_true(simp):
                return True
            if z3.is_false(simp):
                return False
        except Exception:
            pass
        return stock(self, expr, probability_true)

    ss.StateSpace.choose_possible = choose_possible


def _install_str_eq():
    """LazyIntSymbolicStr.__eq__ delegates to `codepoints == codepoints`, which answers False for
    some pairs of container kinds (measured: `(s + "\\n").rstrip("\\n") == s` is False while the
    mirrored comparison is True).  Compare length and code points element-wise instead."""
    from crosshair.libimpl import builtinslib as bl

    def __eq__(self, other):
        with NoTracing():
            if isinstance(other, bl.LazyIntSymbolicStr):
                otherpoints = other._codepoints
            elif isinstance(other, str):
                otherpoints = [ord(ch) for ch in other]
            else:
                return NotImplemented
            mypoints = self._codepoints
        n = len(mypoints)
        if n != len(otherpoints):
            return False
        res = True
        for i in range(n):
            res = res & (mypoints[i] == otherpoints[i])
        return res

    bl.LazyIntSymbolicStr.__eq__ = __eq__
    bl.LazyIntSymbolicStr.__ne__ = lambda self, other: (lambda r: r if r is NotImplemented else not r)(__eq__(self, other))


def apply():
    global _APPLIED
    if _APPLIED:
        return
    _APPLIED = True
    relib.parse = _parse
    relib._Match.groupdict = _groupdict
    relib.unicode_ignorecase_mask = _unicode_ignorecase_mask
    core._PATCH_REGISTRATIONS[re.Pattern.findall] = _findall
    core._PATCH_REGISTRATIONS[re.Pattern.search] = _search
    core._PATCH_REGISTRATIONS[str.__mod__] = _percent_format
    _install_format_value_repr()
    _install_fast_charmask()
    _install_str_eq()
    _install_constant_fork_fastpath()
    try:
        _install_mask_disk_cache()
    except Exception:
        pass
    try:
        register_patch(sys.intern, _intern)
    except Exception:
        core._PATCH_REGISTRATIONS[sys.intern] = _intern


REPAIRS = [
    "symbolic str equality compares length and code points element-wise (stock: container == container is wrong for some container kinds)",
    "branch conditions that z3.simplify reduces to a constant are decided without a solver call or tree node (performance only)",
    "Unicode predicate masks (isspace, islower, ...) cached on disk instead of re-scanning all code points in every worker (performance only)",
    "CharMask.smt_matches memoised per mask via z3.substitute (performance only; identical formula)",
    "regex `$` (non-MULTILINE) modelled as (?=\\n?\\Z) instead of \\Z",
    "re.Pattern.findall built on the symbolic finditer (stock realises the subject)",
    "re.Pattern.search also tries the empty match at end of string",
    "Match.groupdict returns strings/default (stock returns spans, drops unmatched groups)",
    "IGNORECASE literal masks built from re.escape(chr(cp))",
    "sys.intern modelled as identity",
    "str %-formatting with only %s/%d/%r/%% directives is symbolic (stock: realises all arguments); %r of a symbolic str is over-approximated by a fresh symbolic string",
]
