"""Plain-CPython re-execution of a harness on concrete arguments (rule 1.2).

Usage:  python -m vf.replay <replay.json>      (no CrossHair, no z3)
Prints one JSON object: {"outcome": "ok"|"skip"|"violation"|"error", "message": ...}
Exit status 0 always unless the file is unusable (2).
"""
import importlib
import json
import sys
import traceback

from . import jsonx
from .hx import Skip, Violation


def run(prop, harness, params, args):
    mod = importlib.import_module("vf.harness." + prop.lower())
    fn = getattr(mod, harness)
    try:
        fn(params, **args)
    except Skip as e:
        return {"outcome": "skip", "message": str(e)}
    except Violation as e:
        return {"outcome": "violation", "message": str(e)}
    except Exception as e:  # unexpected exception out of the real code
        return {"outcome": "violation",
                "message": "unexpected %s: %s" % (type(e).__name__, e),
                "traceback": traceback.format_exc()[-3000:]}
    return {"outcome": "ok", "message": ""}


def main(argv):
    try:
        with open(argv[1]) as f:
            rec = jsonx.loads(f.read())
        res = run(rec["property"], rec["harness"], rec["params"], rec["args"])
    except Exception as e:
        print(json.dumps({"outcome": "error", "message": repr(e),
                          "traceback": traceback.format_exc()[-3000:]}))
        return 2
    print(json.dumps(res))
    if "--verbose" in argv:
        print(res.get("traceback", ""), file=sys.stderr)
    return 0


if __name__ == "__main__":
    sys.exit(main(sys.argv))
