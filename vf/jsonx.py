"""JSON with bytes/tuples (arguments of harness functions are builtin types only)."""
import json


def enc(o):
    if isinstance(o, (bytes, bytearray)):
        return {"$b": bytes(o).hex()}
    if isinstance(o, tuple):
        return {"$t": [enc(x) for x in o]}
    if isinstance(o, list):
        return [enc(x) for x in o]
    if isinstance(o, dict):
        if all(isinstance(k, str) and not k.startswith("$") for k in o):
            return {k: enc(v) for k, v in o.items()}
        return {"$d": [[enc(k), enc(v)] for k, v in o.items()]}
    if isinstance(o, (set, frozenset)):
        return {"$s": [enc(x) for x in sorted(o, key=repr)]}
    if o is None or isinstance(o, (bool, int, float, str)):
        return o
    return {"$r": repr(o)}


def dec(o):
    if isinstance(o, list):
        return [dec(x) for x in o]
    if isinstance(o, dict):
        if "$b" in o:
            return bytes.fromhex(o["$b"])
        if "$t" in o:
            return tuple(dec(x) for x in o["$t"])
        if "$d" in o:
            return {dec(k): dec(v) for k, v in o["$d"]}
        if "$s" in o:
            return set(dec(x) for x in o["$s"])
        if "$r" in o:
            return o["$r"]
        return {k: dec(v) for k, v in o.items()}
    return o


def dumps(o, **kw):
    return json.dumps(enc(o), ensure_ascii=True, **kw)


def loads(s):
    return dec(json.loads(s))
