"""Engine A driver: CrossHair used as a library (DESIGN.md section 2.2).

`explore(fn, sig)` runs the harness `fn` on symbolic arguments, one path per
iteration; z3 decides the feasibility of every branch.  The result is

  confirmed      every feasible path within the bound was executed and the
                 harness returned normally (or skipped) on each
  counterexample a path raised Violation / an unexpected exception; the
                 arguments are realised and handed back for plain replay
  inconclusive   budget exhausted, unknown solver answers, unsupported path,
                 or no path met the precondition
"""
import inspect
import sys
import time
import traceback

from crosshair import core_and_libs  # noqa: F401  (registers library models)
from crosshair.condition_parser import condition_parser
from crosshair.core import ExceptionFilter, Patched, deep_realize, gen_args
from crosshair.options import DEFAULT_OPTIONS
from crosshair.statespace import (
    CallAnalysis,
    RootNode,
    StateSpace,
    StateSpaceContext,
    VerificationStatus,
)
from crosshair.tracers import COMPOSITE_TRACER, NoTracing, ResumedTracing
from crosshair.util import (
    CrosshairUnsupported,
    IgnoreAttempt,
    UnexploredPath,
)

from . import xh_plugin
from .hx import Skip, Violation

xh_plugin.apply()


def _run_path(fn, sig, space):
    with NoTracing():
        args = gen_args(sig)
    status = None
    cex = None
    with ExceptionFilter() as efilter:
        try:
            fn(**args.arguments)
        except Skip:
            raise IgnoreAttempt("precondition")
        space.detach_path()
        return (VerificationStatus.CONFIRMED, None)
    if efilter.ignore:
        return (None, None)
    if efilter.user_exc is not None:
        exc, stack = efilter.user_exc
        try:
            space.detach_path()
        except BaseException:
            pass
        with NoTracing():
            try:
                realized = {k: deep_realize(v) for k, v in args.arguments.items()}
            except BaseException as e:  # realisation may hit solver limits
                return (VerificationStatus.UNKNOWN, None)
            try:
                msg = "%s: %s" % (type(exc).__name__, deep_realize(str(exc)))
            except BaseException:
                msg = type(exc).__name__
        return (VerificationStatus.REFUTED, {"args": realized, "message": msg[:2000]})
    return (None, None)


def explore(fn, sig=None, budget_s=60.0, per_path_timeout=30.0, max_paths=10**9,
            stop_on_first=True, progress=None):
    if sig is None:
        sig = inspect.signature(fn)
    root = RootNode()
    t0 = time.monotonic()
    c0 = time.process_time()
    stats = {"paths": 0, "confirmed_paths": 0, "skipped_paths": 0,
             "unknown_paths": 0, "refuted_paths": 0}
    cexs = []
    consecutive_skips = 0
    verdict = "inconclusive"
    reason = "budget"
    unknown_reasons = {}
    with condition_parser(DEFAULT_OPTIONS.analysis_kind), Patched(), COMPOSITE_TRACER, NoTracing():
        while True:
            now = time.monotonic()
            if now - t0 > budget_s:
                reason = "budget %.0fs exhausted after %d paths" % (budget_s, stats["paths"])
                break
            if stats["paths"] >= max_paths:
                reason = "max_paths"
                break
            stats["paths"] += 1
            itr = time.process_time()
            space = StateSpace(
                execution_deadline=itr + per_path_timeout,
                model_check_timeout=per_path_timeout / 2,
                search_root=root,
            )
            cex = None
            with StateSpaceContext(space):
                try:
                    with ResumedTracing():
                        status, cex = _run_path(fn, sig, space)
                except IgnoreAttempt:
                    status = None
                except UnexploredPath as e:
                    status = VerificationStatus.UNKNOWN
                    k = type(e).__name__ + ": " + str(e)[:120]
                    unknown_reasons[k] = unknown_reasons.get(k, 0) + 1
                except CrosshairUnsupported as e:
                    status = VerificationStatus.UNKNOWN
                    k = "Unsupported: " + str(e)[:120]
                    unknown_reasons[k] = unknown_reasons.get(k, 0) + 1
                if status is VerificationStatus.CONFIRMED:
                    stats["confirmed_paths"] += 1
                elif status is None:
                    stats["skipped_paths"] += 1
                elif status is VerificationStatus.UNKNOWN:
                    stats["unknown_paths"] += 1
                elif status is VerificationStatus.REFUTED:
                    stats["refuted_paths"] += 1
                top, exhausted = space.bubble_status(CallAnalysis(status))
            if status is None:
                consecutive_skips += 1
            else:
                consecutive_skips = 0
            if consecutive_skips >= 400 and stats["unknown_paths"] > 0:
                # after a timed-out path CrossHair keeps producing fresh ways to fail the
                # precondition (string lengths...); nothing more will be learned in this run
                reason = "no progress: %d consecutive precondition failures after a path timeout" % consecutive_skips
                break
            if cex is not None:
                cexs.append(cex)
                if stop_on_first:
                    verdict, reason = "counterexample", cex["message"]
                    break
            if exhausted:
                ts = top.verification_status if top is not None else None
                if cexs:
                    verdict, reason = "counterexample", cexs[0]["message"]
                elif ts is VerificationStatus.CONFIRMED:
                    verdict, reason = "confirmed", "all %d paths exhausted" % stats["paths"]
                elif ts is None:
                    verdict, reason = "inconclusive", "no path met the precondition"
                else:
                    verdict, reason = "inconclusive", "exhausted with unknown paths"
                break
            if progress and stats["paths"] % 50 == 0:
                progress(stats)
    if cexs and verdict != "counterexample":
        verdict, reason = "counterexample", cexs[0]["message"]
    return {
        "verdict": verdict,
        "reason": reason,
        "stats": stats,
        "unknown_reasons": unknown_reasons,
        "counterexamples": cexs,
        "wall_s": round(time.monotonic() - t0, 3),
        "cpu_s": round(time.process_time() - c0, 3),
    }
