"""Engine B: live compiled `re` patterns -> z3 regular-expression terms.

The translation walks `re._parser.parse(p.pattern, p.flags)` of the *live*
pattern object, so an edit to a regex in /repo changes the term on the next run.
Character categories (\\d \\s \\w, IGNORECASE folding) are computed by scanning
every code point with the running interpreter's `re` module.

Languages:
  full(p)   = { s | p.fullmatch(s) }
  match(p)  = { s | p.match(s) }         (prefix match; tail is free unless anchored)

Only constructs whose *language* is independent of backtracking order are
accepted; everything else raises NotEncodable and the lemma is inconclusive.
z3's character sort ends at U+2FFFF: code points above are outside every claim.
"""
import os
import pickle
import re
import sys
import time
import unicodedata

import z3

try:
    import re._parser as sre_parse
    import re._constants as sre_c
except ImportError:  # pragma: no cover
    import sre_parse
    import sre_constants as sre_c

MAXCP = 0x2FFFF
ROOT = os.path.dirname(os.path.dirname(os.path.abspath(__file__)))


class NotEncodable(Exception):
    pass


# ---------------------------------------------------------------- categories
_CAT = {}


def _cache_path():
    d = os.path.join(ROOT, ".cache")
    os.makedirs(d, exist_ok=True)
    key = "%s-%s" % (sys.version.split()[0], unicodedata.unidata_version)
    return os.path.join(d, "recat-%s.pickle" % key)


def _ranges(pred, hi):
    out, start = [], None
    for cp in range(hi + 1):
        if pred(cp):
            if start is None:
                start = cp
        elif start is not None:
            out.append((start, cp - 1))
            start = None
    if start is not None:
        out.append((start, hi))
    return out


def categories():
    """{('digit'|'space'|'word', unicode?): [(lo,hi)...]} measured with the real re module."""
    global _CAT
    if _CAT:
        return _CAT
    p = _cache_path()
    if os.path.exists(p):
        try:
            with open(p, "rb") as f:
                _CAT = pickle.load(f)
            return _CAT
        except Exception:
            pass
    cat = {}
    for name, pat in (("digit", r"\d"), ("space", r"\s"), ("word", r"\w")):
        ru = re.compile(pat)
        ra = re.compile(pat, re.ASCII)
        cat[(name, True)] = _ranges(lambda cp: ru.match(chr(cp)) is not None, MAXCP)
        cat[(name, False)] = _ranges(lambda cp: ra.match(chr(cp)) is not None, 127)
    _CAT = cat
    try:
        with open(p, "wb") as f:
            pickle.dump(cat, f)
    except Exception:
        pass
    return cat


_FOLD = {}


def _case_variants(cp):
    """All code points c with re.IGNORECASE equivalence to cp (measured)."""
    if cp in _FOLD:
        return _FOLD[cp]
    ch = chr(cp)
    cands = {ch, ch.lower(), ch.upper(), ch.swapcase(), ch.casefold()}
    pat = re.compile(re.escape(ch), re.IGNORECASE)
    out = sorted({ord(c) for c in cands if len(c) == 1 and pat.fullmatch(c)})
    # a few extra (e.g. 'k' ~ KELVIN SIGN) -- scan the small special list CPython uses
    for extra in (0x130, 0x131, 0x17F, 0x212A, 0x1E9E, 0xDF, 0x345, 0x3B9, 0x1FBE, 0xB5, 0x3BC,
                  0x3C2, 0x3C3, 0x3A3, 0x3D0, 0x3B2, 0x3D1, 0x3B8, 0x3D5, 0x3C6, 0x3D6, 0x3C0,
                  0x3F0, 0x3BA, 0x3F1, 0x3C1, 0x3F5, 0x3B5, 0x1E61, 0x1E9B, 0xFB05, 0xFB06):
        if extra not in out and pat.fullmatch(chr(extra)):
            out.append(extra)
    _FOLD[cp] = sorted(out)
    return _FOLD[cp]


# ---------------------------------------------------------------- regex IR
# A tiny regular-expression IR (tuples) sits between the `re` parse tree and z3:
#   ("rng", ((lo,hi),...)) ("cat", (n,...)) ("alt", (n,...)) ("star", n) ("plus", n)
#   ("opt", n) ("loop", n, lo, hi) ("eps",) ("and", (n,...)) ("not", n)
# It is (a) mapped 1:1 to z3 terms and (b) executed concretely by `member()` so
# that the translation can be validated against CPython's `re` (selftest).

def merge_ranges(ranges):
    out = []
    for lo, hi in sorted(ranges):
        if out and lo <= out[-1][1] + 1:
            out[-1] = (out[-1][0], max(out[-1][1], hi))
        else:
            out.append((lo, hi))
    return out


def negate_ranges(ranges, hi=MAXCP):
    out, prev = [], 0
    for lo, h in merge_ranges(ranges):
        if lo > prev:
            out.append((prev, lo - 1))
        prev = max(prev, h + 1)
    if prev <= hi:
        out.append((prev, hi))
    return out


EPS = ("eps",)
EMPTY = ("rng", ())


def ranges_re(ranges):
    return ("rng", tuple(merge_ranges(ranges)))


def union(*rs):
    rs = [r for r in rs if r is not None]
    if all(r[0] == "rng" for r in rs):
        return ranges_re([x for r in rs for x in r[1]])
    if len(rs) == 1:
        return rs[0]
    return ("alt", tuple(rs))


def concat(*rs):
    rs = [r for r in rs if r != EPS]
    if not rs:
        return EPS
    if len(rs) == 1:
        return rs[0]
    return ("cat", tuple(rs))


ANYCHAR = ranges_re([(0, MAXCP)])
SIGMA_STAR = ("star", ANYCHAR)


def lit(s):
    return concat(*[ranges_re([(ord(c), ord(c))]) for c in s])


def chars(s):
    return ranges_re([(ord(c), ord(c)) for c in s])


def not_chars(s, hi=MAXCP):
    return ranges_re(negate_ranges([(ord(c), ord(c)) for c in s], hi))


def star(r):
    return ("star", r)


def plus(r):
    return ("plus", r)


def opt(r):
    return ("opt", r)


def loop(r, lo, hi):
    return ("loop", r, lo, hi)


def inter(*rs):
    return ("and", tuple(rs))


def comp(r):
    return ("not", r)


def minus(a, b):
    return ("and", (a, ("not", b)))


_Z3CACHE = {}


def _zchr(cp):
    return z3.StringVal(chr(cp))


def to_z3(n):
    k = id(n)
    hit = _Z3CACHE.get(k)
    if hit is not None and hit[0] is n:
        return hit[1]
    t = n[0]
    if t == "rng":
        parts = []
        for lo, hi in n[1]:
            hi = min(hi, MAXCP)
            if lo > MAXCP:
                continue
            parts.append(z3.Re(_zchr(lo)) if lo == hi else z3.Range(_zchr(lo), _zchr(hi)))
        if not parts:
            r = z3.Empty(z3.ReSort(z3.StringSort()))
        elif len(parts) == 1:
            r = parts[0]
        else:
            r = z3.Union(*parts)
    elif t == "eps":
        r = z3.Re(z3.StringVal(""))
    elif t == "cat":
        r = z3.Concat(*[to_z3(x) for x in n[1]])
    elif t == "alt":
        r = z3.Union(*[to_z3(x) for x in n[1]])
    elif t == "and":
        r = z3.Intersect(*[to_z3(x) for x in n[1]])
    elif t == "not":
        r = z3.Complement(to_z3(n[1]))
    elif t == "star":
        r = z3.Star(to_z3(n[1]))
    elif t == "plus":
        r = z3.Plus(to_z3(n[1]))
    elif t == "opt":
        r = z3.Option(to_z3(n[1]))
    elif t == "loop":
        r = z3.Loop(to_z3(n[1]), n[2], n[3])
    else:
        raise ValueError(t)
    _Z3CACHE[k] = (n, r)
    return r


def member(n, s):
    """Concrete membership of s in the IR language (validation path, no solver)."""
    memo = {}

    def ends(n, i):
        key = (id(n), i)
        if key in memo:
            return memo[key]
        memo[key] = frozenset()      # guards against epsilon loops
        t = n[0]
        if t == "rng":
            out = set()
            if i < len(s):
                c = ord(s[i])
                for lo, hi in n[1]:
                    if lo <= c <= hi:
                        out.add(i + 1)
                        break
        elif t == "eps":
            out = {i}
        elif t == "cat":
            cur = {i}
            for x in n[1]:
                nxt = set()
                for j in cur:
                    nxt |= ends(x, j)
                cur = nxt
                if not cur:
                    break
            out = cur
        elif t == "alt":
            out = set()
            for x in n[1]:
                out |= ends(x, i)
        elif t == "opt":
            out = {i} | ends(n[1], i)
        elif t in ("star", "plus", "loop"):
            lo, hi = {"star": (0, None), "plus": (1, None)}.get(t, (n[2] if t == "loop" else 0, n[3] if t == "loop" else None))
            out = set()
            frontier = {i}
            seen = set()
            k = 0
            if lo == 0:
                out.add(i)
            while frontier and (hi is None or k < hi):
                nxt = set()
                for j in frontier:
                    nxt |= ends(n[1], j)
                k += 1
                if k >= lo:
                    out |= nxt
                nxt = {j for j in nxt if (j, min(k, lo)) not in seen}
                seen |= {(j, min(k, lo)) for j in nxt}
                frontier = nxt
        elif t == "and":
            out = None
            for x in n[1]:
                e = ends(x, i)
                out = e if out is None else out & e
        elif t == "not":
            e = ends(n[1], i)
            out = set(range(i, len(s) + 1)) - set(e)
        else:
            raise ValueError(t)
        memo[key] = frozenset(out)
        return memo[key]

    return len(s) in ends(n, 0)


# ---------------------------------------------------------------- translation
class Tr:
    def __init__(self, pattern, mandatory_groups=(), drop_groups=(), clip=None):
        self.p = pattern
        self.flags = pattern.flags
        self.is_bytes = isinstance(pattern.pattern, bytes)
        self.unicode = not self.is_bytes and not (self.flags & re.ASCII)
        self.hi = 255 if self.is_bytes else MAXCP
        if clip is not None:
            # restrict the alphabet: for concat/union/star regexes, clipping every class gives L & [0..clip]*
            self.hi = min(self.hi, clip)
        self.clip = clip
        self.ignorecase = bool(self.flags & re.IGNORECASE)
        self.multiline = bool(self.flags & re.MULTILINE)
        self.dotall = bool(self.flags & re.DOTALL)
        self.mandatory = set(mandatory_groups)
        self.dropped = set(drop_groups)
        src = pattern.pattern
        if self.is_bytes:
            src = src  # the parser accepts bytes
        self.tree = sre_parse.parse(src, self.flags & ~re.DEBUG if hasattr(re, "DEBUG") else self.flags)
        self.gnames = {v: k for k, v in pattern.groupindex.items()}

    # character sets ---------------------------------------------------
    def cat_ranges(self, code):
        c = categories()
        name = {sre_c.CATEGORY_DIGIT: "digit", sre_c.CATEGORY_NOT_DIGIT: "digit",
                sre_c.CATEGORY_SPACE: "space", sre_c.CATEGORY_NOT_SPACE: "space",
                sre_c.CATEGORY_WORD: "word", sre_c.CATEGORY_NOT_WORD: "word"}.get(code)
        if name is None:
            raise NotEncodable("category %r" % (code,))
        r = c[(name, self.unicode)]
        if code in (sre_c.CATEGORY_NOT_DIGIT, sre_c.CATEGORY_NOT_SPACE, sre_c.CATEGORY_NOT_WORD):
            r = negate_ranges(r, self.hi)
        return r

    def lit_ranges(self, cp):
        if self.ignorecase:
            if self.is_bytes or not self.unicode:
                vs = {cp}
                ch = chr(cp)
                if cp < 128:
                    vs |= {ord(ch.lower()), ord(ch.upper())}
                return [(v, v) for v in sorted(vs)]
            return [(v, v) for v in _case_variants(cp)]
        return [(cp, cp)]

    def in_ranges(self, items):
        neg = False
        rs = []
        for op, av in items:
            if op is sre_c.NEGATE:
                neg = True
            elif op is sre_c.LITERAL:
                rs += self.lit_ranges(av)
            elif op is sre_c.RANGE:
                lo, hi = av
                if self.ignorecase:
                    if hi - lo > 300:
                        raise NotEncodable("large IGNORECASE range")
                    for cp in range(lo, hi + 1):
                        rs += self.lit_ranges(cp)
                else:
                    rs.append((lo, hi))
            elif op is sre_c.CATEGORY:
                rs += self.cat_ranges(av)
            else:
                raise NotEncodable("IN item %r" % (op,))
        rs = merge_ranges(rs)
        if neg:
            rs = negate_ranges(rs, self.hi)
        return rs

    def single(self, op, av):
        """Ranges for a single-character node, or None."""
        r = self._single(op, av)
        if r is not None and self.clip is not None:
            r = [(lo, min(hi, self.clip)) for lo, hi in r if lo <= self.clip]
        return r

    def _single(self, op, av):
        if op is sre_c.LITERAL:
            return merge_ranges(self.lit_ranges(av))
        if op is sre_c.NOT_LITERAL:
            return negate_ranges(merge_ranges(self.lit_ranges(av)), self.hi)
        if op is sre_c.ANY:
            return [(0, self.hi)] if self.dotall else negate_ranges([(10, 10)], self.hi)
        if op is sre_c.IN:
            return self.in_ranges(av)
        return None

    # sequences ----------------------------------------------------------
    def seq(self, items, tail, tail_free):
        """Regex for `items`; `tail` says the sequence ends the whole pattern.

        Returns (re, anchored_end) where anchored_end is True if an end anchor
        in tail position was consumed (so no free suffix may follow)."""
        items = list(items)
        parts = []
        anchored = False
        n = len(items)
        for i, (op, av) in enumerate(items):
            last = tail and i == n - 1
            # trailing anchors may be followed only by other zero-width tail anchors
            rest_is_anchor = tail and all(o is sre_c.AT for o, _ in items[i + 1:])
            if op is sre_c.AT:
                if av in (sre_c.AT_BEGINNING, sre_c.AT_BEGINNING_STRING):
                    if any(True for _ in parts) or not self._at_head:
                        raise NotEncodable("begin anchor not at head")
                    if av is sre_c.AT_BEGINNING and self.multiline:
                        raise NotEncodable("^ with MULTILINE")
                    continue
                if av in (sre_c.AT_END, sre_c.AT_END_STRING):
                    if not rest_is_anchor:
                        raise NotEncodable("end anchor not in tail position")
                    if av is sre_c.AT_END:
                        if self.multiline:
                            raise NotEncodable("$ with MULTILINE")
                        if not anchored and not self._fullmode:
                            parts.append(opt(lit("\n")))
                    anchored = True
                    continue
                raise NotEncodable("anchor %r" % (av,))
            self._at_head = False
            if anchored:
                raise NotEncodable("pattern after end anchor")
            r, a = self.node(op, av, last)
            parts.append(r)
            anchored = anchored or a
        return concat(*parts), anchored

    def node(self, op, av, tail):
        s = self.single(op, av)
        if s is not None:
            return ranges_re(s), False
        if op is sre_c.SUBPATTERN:
            group, add_flags, del_flags, sub = av
            if add_flags or del_flags:
                raise NotEncodable("inline flags")
            return self.seq(sub, tail, None)
        if op is sre_c.BRANCH:
            _, alts = av
            head = self._at_head
            rs, anchors = [], []
            for alt in alts:
                self._at_head = head
                r, a = self.seq(alt, tail, None)
                rs.append(r)
                anchors.append(a)
            self._at_head = False
            if any(anchors) and not all(anchors):
                # mixed: alternatives without end anchor get a free tail (match-language)
                if not tail:
                    raise NotEncodable("anchor inside non-tail branch")
                self._mixed_tail = True
                rs = [r if a else concat(r, self._free_tail()) for r, a in zip(rs, anchors)]
                return union(*rs), True
            return union(*rs), all(anchors) and bool(anchors)
        if op in (sre_c.MAX_REPEAT, sre_c.MIN_REPEAT):
            lo, hi, sub = av
            items = list(sub)
            gids = self._groups_in(items)
            names = {self.gnames.get(g, g) for g in gids} | set(gids)
            if names & self.mandatory and lo == 0 and hi == 1:
                lo = 1
            if names & self.dropped and lo == 0:
                return EPS, False
            head = self._at_head
            r, a = self.seq(items, False, None)
            if a:
                raise NotEncodable("anchor under repeat")
            self._at_head = False
            if hi is sre_c.MAXREPEAT:
                if lo == 0:
                    return star(r), False
                if lo == 1:
                    return plus(r), False
                return concat(*([r] * lo + [star(r)])), False
            if lo == 0 and hi == 1:
                return opt(r), False
            return loop(r, lo, hi), False
        if op is sre_c.ASSERT or op is sre_c.ASSERT_NOT:
            raise NotEncodable("look-around")
        if op is sre_c.GROUPREF or op is sre_c.GROUPREF_EXISTS:
            raise NotEncodable("back-reference")
        raise NotEncodable("node %r" % (op,))

    def _groups_in(self, items):
        out = []
        for op, av in items:
            if op is sre_c.SUBPATTERN:
                if av[0] is not None:
                    out.append(av[0])
                out += self._groups_in(av[3])
            elif op in (sre_c.MAX_REPEAT, sre_c.MIN_REPEAT):
                out += self._groups_in(av[2])
            elif op is sre_c.BRANCH:
                for alt in av[1]:
                    out += self._groups_in(alt)
        return out

    def _free_tail(self):
        return star(ranges_re([(0, self.hi)]))

    def full(self):
        self._fullmode = True
        self._at_head = True
        self._mixed_tail = False
        r, anchored = self.seq(self.tree, True, None)
        if self._mixed_tail:
            raise NotEncodable("full() of pattern with partially anchored alternatives")
        return r

    def match(self):
        self._fullmode = False
        self._at_head = True
        self._mixed_tail = False
        r, anchored = self.seq(self.tree, True, None)
        if anchored:
            return r
        return concat(r, self._free_tail())


def full(pattern, **kw):
    return Tr(pattern, **kw).full()


def match(pattern, **kw):
    return Tr(pattern, **kw).match()


# ---------------------------------------------------------------- queries
class Session:
    """One incremental z3 solver; counts verdicts; `unknown` is inconclusive."""

    def __init__(self, timeout_ms=30000, seed=0):
        self.solver = z3.Solver()
        self.solver.set("timeout", timeout_ms)
        self.solver.set("random_seed", seed % (2**30))
        self.x = z3.String("x")
        self.counts = {"unsat": 0, "sat": 0, "unknown": 0, "not_encodable": 0}
        self.solver_s = 0.0
        self.log = []

    def witness(self, *constraints, var=None):
        """Return ('sat', str) / ('unsat', None) / ('unknown', None) for the conjunction."""
        s = self.solver
        s.push()
        try:
            for c in constraints:
                s.add(c)
            t0 = time.monotonic()
            r = str(s.check())
            self.solver_s += time.monotonic() - t0
            self.counts[r if r in self.counts else "unknown"] += 1
            if r == "sat":
                m = s.model()
                v = m.eval(var if var is not None else self.x, model_completion=True)
                return "sat", v.as_string() if hasattr(v, "as_string") else str(v)
            return r, None
        finally:
            s.pop()

    def in_lang(self, lang, neg=False):
        c = z3.InRe(self.x, to_z3(lang))
        return z3.Not(c) if neg else c

    def subset(self, a, b, name=""):
        """a subseteq b ?  -> ('holds'|'fails'|'unknown', witness)"""
        r, w = self.witness(z3.InRe(self.x, to_z3(a)), z3.Not(z3.InRe(self.x, to_z3(b))))
        v = {"unsat": "holds", "sat": "fails"}.get(r, "unknown")
        self.log.append({"lemma": name, "verdict": v, "witness": decode_z3(w) if w is not None else None})
        return v, decode_z3(w) if w is not None else None

    def disjoint(self, a, b, name=""):
        r, w = self.witness(z3.InRe(self.x, to_z3(a)), z3.InRe(self.x, to_z3(b)))
        v = {"unsat": "holds", "sat": "fails"}.get(r, "unknown")
        self.log.append({"lemma": name, "verdict": v, "witness": decode_z3(w) if w is not None else None})
        return v, decode_z3(w) if w is not None else None

    def nonempty(self, a, name=""):
        r, w = self.witness(z3.InRe(self.x, to_z3(a)))
        v = {"sat": "holds", "unsat": "fails"}.get(r, "unknown")
        self.log.append({"lemma": name + " (sanity: must be sat)", "verdict": v,
                         "witness": decode_z3(w) if w is not None else None})
        return v, decode_z3(w) if w is not None else None


_ESC = re.compile(r"\\u\{([0-9a-fA-F]+)\}|\\x([0-9a-fA-F]{2})")


def decode_z3(s):
    """z3 prints non-printable characters as \\u{XX}."""
    if s is None:
        return None
    return _ESC.sub(lambda m: chr(int(m.group(1) or m.group(2), 16)), s)
