"""Environment models (DESIGN.md section 2.5).  Pure Python so that the symbolic
executor can follow them; each one is part of the claim wherever it is used."""


class PyFile:
    """Binary in-memory file with io.BytesIO semantics for
    seek(0/1/2), tell, read(n), read(), readline(), readline(n), close.
    Validated against io.BytesIO by `./check selftest`."""

    def __init__(self, data):
        self._d = data
        self._p = 0
        self.closed = False

    def seek(self, off, whence=0):
        if whence == 0:
            if off < 0:
                raise ValueError("negative seek value %r" % (off,))
            self._p = off
        elif whence == 1:
            self._p = max(0, self._p + off)
        elif whence == 2:
            self._p = max(0, len(self._d) + off)
        else:
            raise ValueError("invalid whence")
        return self._p

    def tell(self):
        return self._p

    def read(self, n=-1):
        size = len(self._d)
        if self._p >= size:
            return b""
        if n is None or n < 0:
            end = size
        else:
            end = min(size, self._p + n)
        r = self._d[self._p:end]
        self._p = end
        return r

    def readline(self, n=-1):
        size = len(self._d)
        if self._p >= size:
            return b""
        i = self._d.find(b"\n", self._p)
        end = size if i < 0 else i + 1
        if n is not None and n >= 0:
            end = min(end, self._p + n)
        r = self._d[self._p:end]
        self._p = end
        return r

    def readlines(self, hint=-1):
        out = []
        while True:
            l = self.readline()
            if not l:
                return out
            out.append(l)

    def close(self):
        self.closed = True

    def __enter__(self):
        return self

    def __exit__(self, *a):
        self.close()
        return False


# ---------------------------------------------------------------- file system / repository (C19)
class InjectedFault(OSError):
    pass


class FakeFS:
    """POSIX-like file store on a dict.  The `fail_at`-th mutating call (open for writing, each
    write(), the flush at close, rename) raises OSError; unlink and reads never fail (the property's fault model)."""

    def __init__(self, files=None, fail_at=-1):
        self.files = dict(files or {})
        self.fail_at = fail_at
        self.mutations = 0
        self.fired = False

    def _mutating(self, what):
        k = self.mutations
        self.mutations += 1
        if k == self.fail_at:
            self.fired = True
            raise InjectedFault("injected fault at mutating call %d (%s)" % (k, what))

    def open(self, name, mode="r", encoding=None):
        fs = self
        if "w" in mode:
            self._mutating("open " + name)
            self.files[name] = ""

            class W:
                def write(self_, s):
                    fs._mutating("write " + name)
                    fs.files[name] = fs.files[name] + s

                def close(self_):
                    # buffered data reaches the disk here: a write error can surface at close time
                    if not getattr(self_, "_closed", False):
                        self_._closed = True
                        fs._mutating("close " + name)

                def __enter__(self_):
                    return self_

                def __exit__(self_, *a):
                    self_.close()
                    return False
            return W()
        if name not in self.files:
            raise FileNotFoundError(2, "No such file", name)
        data = self.files[name]

        class R:
            def readlines(self_):
                # a text file ends lines at '\n' only (not at FF, LS, GS ... as str.splitlines does)
                out, cur = [], ""
                for ch in data:
                    cur += ch
                    if ch == "\n":
                        out.append(cur)
                        cur = ""
                if cur:
                    out.append(cur)
                return out

            def read(self_):
                return data

            def close(self_):
                pass

            def __enter__(self_):
                return self_

            def __exit__(self_, *a):
                return False
        return R()

    # the parts of `os` used by debian_support
    def rename(self, a, b):
        self._mutating("rename")
        if a not in self.files:
            raise FileNotFoundError(2, "No such file", a)
        self.files[b] = self.files.pop(a)

    def unlink(self, a):
        if a not in self.files:
            raise FileNotFoundError(2, "No such file", a)
        del self.files[a]

    def exists(self, a):
        return a in self.files


class FakeOS:
    def __init__(self, fs):
        self._fs = fs
        self.rename = fs.rename
        self.unlink = fs.unlink
        self.path = self

    def close(self, handle):
        return None

    def exists(self, a):
        return self._fs.exists(a)


class FakeRepo:
    """Objects published under URLs: {url: list of str lines}.  Absent -> IOError (like urllib)."""

    def __init__(self, objects):
        self.objects = objects
        self.requests = []

    def gunzip_lines(self, url):
        self.requests.append(url)
        if url not in self.objects:
            raise IOError("404 " + url)
        return list(self.objects[url])

    def urlopen(self, url):
        self.requests.append(url)
        if url not in self.objects:
            raise IOError("404 " + url)
        f = PyFile("".join(self.objects[url]).encode("utf-8"))
        return f


class FakeTransport:
    """Stands for tempfile.mkstemp + urllib.request.urlretrieve + gzip.open as used by the real
    download_gunzip_lines: the 'downloaded file' is kept in the FakeFS, reading it back as text
    yields the published lines (a text file splits lines at '\\n' only)."""

    def __init__(self, repo, fs):
        self.repo, self.fs, self.n = repo, fs, 0
        self.bad_url, self.bad_exc, self.bad_files = None, None, set()

    def mkstemp(self, *a, **k):
        self.n += 1
        name = "/tmp/fake-%d" % self.n
        self.fs.files[name] = ""
        return (1000 + self.n, name)

    def urlretrieve(self, url, filename=None, *a, **k):
        self.repo.requests.append(url)
        if url not in self.repo.objects:
            raise IOError("404 " + url)
        self.fs.files[filename] = "".join(self.repo.objects[url])
        if url == self.bad_url:
            self.bad_files.add(filename)
        return (filename, None)

    def gzip_open(self, filename, mode="rt", *a, **k):
        data = self.fs.files[filename]
        bad = self.bad_exc if filename in self.bad_files else None

        class G:
            def readlines(self_):
                if bad is not None:
                    raise bad
                out, cur = [], ""
                for ch in data:
                    cur += ch
                    if ch == "\n":
                        out.append(cur)
                        cur = ""
                if cur:
                    out.append(cur)
                return out

            def read(self_):
                if bad is not None:
                    raise bad
                return data

            def __iter__(self_):
                return iter(self_.readlines())

            def close(self_):
                pass

            def __enter__(self_):
                return self_

            def __exit__(self_, *a):
                return False
        return G()


def digest_sha256(lines):
    """Injective, whitespace-free stand-in for read_lines_sha256."""
    return "2" + "".join(l if isinstance(l, str) else l.decode("utf-8") for l in lines).encode("utf-8").hex()


def digest_sha1(lines):
    return "1" + "".join(l if isinstance(l, str) else l.decode("utf-8") for l in lines).encode("utf-8").hex()


# ---------------------------------------------------------------- io.StringIO (C12, C17)
class PyStringIO:
    """Pure-Python io.StringIO for write()/getvalue()/read()/seek(0): the C implementation
    realises every symbolic string written to it."""

    def __init__(self, initial=""):
        self._parts = [initial] if initial else []
        self._pos = 0

    def write(self, s):
        if not isinstance(s, str):
            raise TypeError("string argument expected, got %r" % type(s).__name__)
        self._parts.append(s)
        return len(s)

    def getvalue(self):
        return "".join(self._parts)

    def seek(self, pos, whence=0):
        self._pos = pos
        return pos

    def read(self, n=-1):
        v = self.getvalue()[self._pos:]
        self._pos += len(v)
        return v

    def close(self):
        pass

    def __enter__(self):
        return self

    def __exit__(self, *a):
        return False


class IoShim:
    """Stands for the `io` module inside debian.copyright / debian.deb822."""

    def __init__(self):
        import io as _io
        self._io = _io
        self.StringIO = PyStringIO

    def __getattr__(self, name):
        return getattr(self._io, name)
