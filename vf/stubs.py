"""Environment models (DESIGN.md section 2.5).  Pure Python so that the symbolic
executor can follow them; each one is part of the claim wherever it is used."""


class PyFile:
    """Binary in-memory file with io.BytesIO semantics for
    seek(0/1/2), tell, read(n), read(), readline(), readline(n), close.
    Validated against io.BytesIO by `./check selftest`."""

    def __init__(self, data):
        self._d = data
        self._p = 0
        self.closed = False

    def seek(self, off, whence=0):
        if whence == 0:
            if off < 0:
                raise ValueError("negative seek value %r" % (off,))
            self._p = off
        elif whence == 1:
            self._p = max(0, self._p + off)
        elif whence == 2:
            self._p = max(0, len(self._d) + off)
        else:
            raise ValueError("invalid whence")
        return self._p

    def tell(self):
        return self._p

    def read(self, n=-1):
        size = len(self._d)
        if self._p >= size:
            return b""
        if n is None or n < 0:
            end = size
        else:
            end = min(size, self._p + n)
        r = self._d[self._p:end]
        self._p = end
        return r

    def readline(self, n=-1):
        size = len(self._d)
        if self._p >= size:
            return b""
        i = self._d.find(b"\n", self._p)
        end = size if i < 0 else i + 1
        if n is not None and n >= 0:
            end = min(end, self._p + n)
        r = self._d[self._p:end]
        self._p = end
        return r

    def readlines(self, hint=-1):
        out = []
        while True:
            l = self.readline()
            if not l:
                return out
            out.append(l)

    def close(self):
        self.closed = True

    def __enter__(self):
        return self

    def __exit__(self, *a):
        self.close()
        return False
