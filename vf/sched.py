"""Partition scheduler: each partition is one worker process under a wall budget."""
import concurrent.futures as cf
import json
import os
import subprocess
import sys
import time

from . import jsonx

ROOT = os.path.dirname(os.path.dirname(os.path.abspath(__file__)))
PY = os.path.join(ROOT, ".venv", "bin", "python")
PLAIN_PY = "/venv/bin/python"


def _env():
    env = dict(os.environ)
    env["PYTHONPATH"] = ROOT + os.pathsep + os.environ.get("VERIF_REPO_LIB", "/repo/lib")
    env["PYTHONHASHSEED"] = "0"
    env["PYTHONDONTWRITEBYTECODE"] = "1"
    env.setdefault("PYTHON_DEBIAN_VERIF", "1")
    return env


def run_worker(job):
    budget = float(job.get("budget", 60))
    grace = 60 + budget * 1.0
    t0 = time.monotonic()
    try:
        p = subprocess.run([PY, "-X", "faulthandler", "-m", "vf.worker"],
                           input=jsonx.dumps(job), capture_output=True, text=True,
                           timeout=budget + grace, cwd=ROOT, env=_env())
        out = p.stdout
        i = out.rfind("@@RESULT@@")
        if i < 0:
            res = {"verdict": "inconclusive", "counterexamples": [], "worker_error": True,
                   "reason": "worker produced no result (rc=%s): %s" % (p.returncode, (p.stderr or "")[-1500:])}
        else:
            res = jsonx.loads(out[i + len("@@RESULT@@"):].strip())
    except subprocess.TimeoutExpired:
        res = {"verdict": "inconclusive", "counterexamples": [],
               "reason": "worker wall timeout (%.0fs)" % (budget + grace)}
    res["name"] = job["name"]
    res["job_wall_s"] = round(time.monotonic() - t0, 2)
    return res


def run_all(jobs, workers=None, on_done=None):
    workers = workers or int(os.environ.get("VERIF_JOBS", "0") or 0) or (os.cpu_count() or 4)
    results = []
    with cf.ThreadPoolExecutor(max_workers=workers) as ex:
        futs = {ex.submit(run_worker, j): j for j in jobs}
        for f in cf.as_completed(futs):
            r = f.result()
            r["_job"] = futs[f]
            results.append(r)
            if on_done:
                on_done(r)
    return results


def plain_replay(path):
    """Run a replay file on /venv/bin/python, no CrossHair, no z3."""
    env = _env()
    p = subprocess.run([PLAIN_PY, "-m", "vf.replay", path], capture_output=True,
                       text=True, timeout=600, cwd=ROOT, env=env)
    try:
        return json.loads(p.stdout.strip().splitlines()[-1])
    except Exception:
        return {"outcome": "error", "message": "replay failed rc=%s %s" % (p.returncode, p.stderr[-1500:])}
