"""C17 -- copyright documents and license texts survive dump and re-parse."""
from debian import copyright as dc
from debian.copyright import (Copyright, FilesParagraph, Header, License, LicenseParagraph,
                              MachineReadableFormatError, _LineBased, _SpaceSeparated,
                              format_multiline_lines, parse_multiline_as_lines)

from ..hx import assume, require, reach, Skip
from ..stubs import IoShim

MANIFEST = dict(
    engines="A",
    technique="symbolic execution (CrossHair+z3) of the multiline codec, License/_SpaceSeparated/_LineBased conversions and Copyright build->dump->strict re-parse->dump with symbolic line contents, patterns, synopsis and texts",
    text="Bounded model checking of the inverse laws with fully symbolic (arbitrary Unicode) strings: the ' .' codec on lists of 1-4 lines of up to 2-3 characters, License.from_str(to_str), _SpaceSeparated and _LineBased round trips on 1-3 element tuples; and of whole documents (header + 0-2 Files + 0-2 License paragraphs from a template catalogue with symbolic holes): strict re-parse yields the same paragraph sequence and values and a second dump is byte-identical. Sizes: 1-10 Files patterns, 1-6 copyright lines, 0-6 license lines (counts symbolic) over catalogues of long values (joined lists up to 600 characters, lines up to 240).",
    note="Trusted: CrossHair's str models (strip/splitlines/split/join/startswith; counterexamples are replayed on CPython). Stub: a pure-Python StringIO replaces io.StringIO inside debian.copyright (write/getvalue contract). Assumed away: characters that Python's splitlines()/isspace() treat specially but the control-file format does not define (VT, FF, FS-US, NEL, LS, PS, CR) inside values; the degenerate line list ['']; license texts ending in an empty line.",
)

FUNCTIONS = ["debian.copyright.format_multiline_lines", "debian.copyright.parse_multiline_as_lines",
             "debian.copyright.format_multiline", "debian.copyright.parse_multiline",
             "debian.copyright.License.from_str", "debian.copyright.License.to_str",
             "debian.copyright._SpaceSeparated.from_str", "debian.copyright._SpaceSeparated.to_str",
             "debian.copyright._LineBased.from_str", "debian.copyright._LineBased.to_str",
             "debian.copyright.Copyright.__init__", "debian.copyright.Copyright.dump",
             "debian.deb822.RestrictedWrapper.__init_restricted_field"]
STUBS = ["PyStringIO (vf/stubs.py) replaces io.StringIO inside debian.copyright for Copyright.dump"]
ASSUMPTIONS = ["values contain no line-boundary character other than the separating '\\n' (CR, VT, FF, FS, GS, RS, NEL, LS, PS are outside the domain)",
               "codec: no line after the first is whitespace-only (unless empty) or a lone '.'; the one-element list [''] is excluded",
               "license text does not end in an empty line (text is a '\\n'-join of lines whose last one is non-empty)"]
OUTSIDE = ["more than 4 lines / 3 elements", "documents with more than 2+2 paragraphs", "Files-Excluded/Files-Included, comments, disclaimers"]

BOUNDARY = [10, 11, 12, 13, 28, 29, 30, 133, 0x2028, 0x2029]


def no_boundary(s):
    ok = True
    for ch in s:
        o = ord(ch)
        ok = ok & (o != 10) & (o != 11) & (o != 12) & (o != 13) & (o != 28) & (o != 29) & (o != 30) & (o != 133) & (o != 0x2028) & (o != 0x2029)
    return ok


def codec_line_ok(s, first):
    """Domain of the codec law for one line."""
    if not no_boundary(s):
        return False
    if first:
        return True
    if len(s) == 0:
        return True
    if s == ".":
        return False
    return s.strip() != ""


def _lines(params, ls):
    n = params["n"]
    out = []
    for i in range(n):
        assume(len(ls[i]) == params["lens"][i])
        out.append(ls[i])
    for i in range(n, 4):
        assume(len(ls[i]) == 0)
    return out


def h_codec(params, l0: str, l1: str, l2: str, l3: str):
    """parse_multiline_as_lines(format_multiline_lines(l)) == l"""
    lines = _lines(params, [l0, l1, l2, l3])
    for i, s in enumerate(lines):
        assume(codec_line_ok(s, i == 0))
    assume(lines != [""])
    enc = format_multiline_lines(list(lines))
    dec = parse_multiline_as_lines(enc)
    require(dec == lines, "codec round trip", lines=lines, encoded=enc, decoded=dec)
    # the encoded form is a legal field value: continuation lines start with a blank and are not blank
    encl = enc.split("\n")
    require(len(encl) == max(len(lines), 1), "one output line per input line", lines=lines, enc=enc)
    for k in range(1, len(encl)):
        require(encl[k].startswith(" ") and encl[k].strip() != "", "continuation line is blank or unindented", enc=enc)


def h_license(params, syn: str, l1: str, l2: str, l3: str):
    """License.from_str(x.to_str()) == x"""
    n = params["n"]           # number of text lines
    lens = params["lens"]
    assume(len(syn) == lens[0])
    assume(no_boundary(syn))
    ls = [l1, l2, l3]
    text_lines = []
    for i in range(3):
        if i < n:
            assume(len(ls[i]) == lens[i + 1])
            assume(codec_line_ok(ls[i], False))
            text_lines.append(ls[i])
        else:
            assume(len(ls[i]) == 0)
    if n:
        assume(len(text_lines[n - 1]) > 0)
    x = License(syn, "\n".join(text_lines))
    s = x.to_str()
    y = License.from_str(s)
    require(y == x, "License round trip", x=tuple(x), s=s, y=None if y is None else tuple(y))
    require(y.to_str() == s, "License second formatting differs", s=s)


def _ws_free(s):
    return len(s) > 0 and len(s.split()) == 1 and s.split()[0] == s


def h_space(params, a: str, b: str, c: str):
    """_SpaceSeparated.from_str(to_str(t)) == t for whitespace-free non-empty values; values with
    whitespace are rejected."""
    n = params["n"]
    vals = [a, b, c]
    t = []
    for i in range(3):
        if i < n:
            assume(len(vals[i]) == params["lens"][i])
            t.append(vals[i])
        else:
            assume(len(vals[i]) == 0)
    t = tuple(t)
    valid = all(_ws_free(v) for v in t)
    try:
        s = _SpaceSeparated.to_str(t)
    except MachineReadableFormatError:
        require(not valid, "valid tuple rejected", t=t)
        return
    require(valid, "value with whitespace (or empty) accepted", t=t, s=s)
    back = _SpaceSeparated.from_str(s)
    require(back == t, "_SpaceSeparated round trip", t=t, s=s, back=back)


def h_linebased(params, a: str, b: str, c: str):
    """_LineBased.from_str(to_str(t)) == stripped t for non-blank, boundary-free values."""
    n = params["n"]
    vals = [a, b, c]
    t = []
    for i in range(3):
        if i < n:
            assume(len(vals[i]) == params["lens"][i])
            assume(no_boundary(vals[i]))
            t.append(vals[i])
        else:
            assume(len(vals[i]) == 0)
    t = tuple(t)
    want = tuple(v.strip() for v in t)
    valid = all(w != "" for w in want)
    try:
        s = _LineBased.to_str(t)
    except MachineReadableFormatError:
        require(not valid, "valid tuple rejected", t=t)
        return
    require(valid, "blank value accepted", t=t, s=s)
    back = _LineBased.from_str(s)
    require(back == want, "_LineBased round trip", t=t, s=s, back=back)
    if n == 1:
        require("\n" not in s, "single element must stay on one line", s=s)
    elif n > 1:
        require(s.startswith("\n"), "multi-element value must start on the next line", s=s)


# ------------------------------------------------------------------ documents
SHAPES = {
    "f1": dict(files=1, licenses=0),
    "f1l1": dict(files=1, licenses=1),
    "f2l1": dict(files=2, licenses=1),
    "l2": dict(files=0, licenses=2),
    "f2l2": dict(files=2, licenses=2),
    "hdr": dict(files=0, licenses=0),
}


def _summary(c):
    out = []
    for p in c.all_paragraphs():
        if isinstance(p, Header):
            out.append(("H", p.format, p.upstream_name, p.upstream_contact, None if p.license is None else tuple(p.license)))
        elif isinstance(p, FilesParagraph):
            out.append(("F", p.files, p.copyright, tuple(p.license), p.comment))
        elif isinstance(p, LicenseParagraph):
            out.append(("L", tuple(p.license), p.comment))
        else:
            out.append(("?",))
    return out


def h_doc(params, h0: str, h1: str):
    shape = SHAPES[params["shape"]]
    hole = params["hole"]
    lens = params["lens"]
    # one or two holes are symbolic; everything else is concrete text
    vals = dict(pat="*", pat2="src/*.c", cp1="2020 A", cp2="2021 B", syn="GPL-2+", lt1="Text one.", lt2="  indented", uname="pkg")
    syms = [h0, h1]
    for i in range(2):
        if i < len(hole):
            assume(len(syms[i]) == lens[i])
            assume(no_boundary(syms[i]))
            vals[hole[i]] = syms[i]
        else:
            assume(len(syms[i]) == 0)
    if "pat" in hole:
        assume(_ws_free(vals["pat"]))
    if "pat2" in hole:
        assume(_ws_free(vals["pat2"]))
    for k in ("cp2", "lt1", "lt2"):
        if k in hole:
            assume(codec_line_ok(vals[k], False))
    if "lt2" in hole:
        assume(len(vals["lt2"]) > 0)
    for k in ("cp1", "syn", "uname"):
        if k in hole:
            # first lines are trimmed by the deb822 parser: compare modulo surrounding blanks -> require stripped
            assume(vals[k] == vals[k].strip())
    if "cp1" in hole:
        assume(len(vals["cp1"]) > 0)
    if "uname" in hole:
        assume(len(vals["uname"]) > 0)
    saved = dc.io
    dc.io = IoShim()
    try:
        c = Copyright()
        c.header.upstream_name = vals["uname"]
        c.header.upstream_contact = ["A <a@x>", "B <b@x>"]
        lic = License(vals["syn"], "\n".join([vals["lt1"], "", vals["lt2"]]))
        for i in range(shape["files"]):
            pats = [vals["pat"], vals["pat2"]] if i == 0 else ["doc/*"]
            # copyright text is stored by the caller in deb822 form (continuation lines indented)
            cp = vals["cp1"] + "\n " + vals["cp2"] if i == 0 else "2019 C"
            if i == 0 and vals["cp2"] == "":
                cp = vals["cp1"] + "\n ."
            c.add_files_paragraph(FilesParagraph.create(pats, cp, lic if i == 0 else License("MIT")))
        for i in range(shape["licenses"]):
            c.add_license_paragraph(LicenseParagraph.create(lic if i == 0 else License("MIT", "Permission\n\n is granted")))
        s1 = c.dump()
        before = _summary(c)
        c2 = Copyright(s1.splitlines(True), strict=True)
        after = _summary(c2)
        require(after == before, "re-parsed document differs", before=before, after=after, text=s1)
        s2 = c2.dump()
        require(s2 == s1, "second dump differs", s1=s1, s2=s2)
        fps = list(c2.all_files_paragraphs())
        require(len(fps) == shape["files"] and len(list(c2.all_license_paragraphs())) == shape["licenses"], "paragraph kinds")
        if fps:
            require(fps[0].files == (vals["pat"], vals["pat2"]), "pattern list", got=fps[0].files)
            require(fps[0].license == lic, "license of Files paragraph", got=tuple(fps[0].license), want=tuple(lic))
    finally:
        dc.io = saved


LONG_GLOBS = ["debian/patches/0001-fix-build-with-newer-toolchain.patch", "src/third-party/some-vendored-library-with-a-long-name/*", "RCS/*,v",
              "docs/reference-manual/chapter-12/*.xml", "data/table_1,2.csv", "a", "tests/fixtures/very-long-directory-name-for-regression-tests/case-0001/*",
              "po/*.po", "x" * 90, "lib/well-known/nested-sub-directory/with-hyphens-everywhere/and-more-hyphens/file-name.c"]
LONG_LINES = ["2001-2024 Some Very Long Organisation Name With Many Words, Incorporated <legal-department@very-long-domain-name.example.org>",
              "2019 B", "w" * 200, "hyphen-" * 30 + "end", "short", "  indented and long: " + "lorem-ipsum dolor sit amet, " * 8]


def h_long(params, k: int, m: int, n: int, rot: int):
    """Sizes as symbolic variables: k Files patterns, m copyright lines, n license text lines from catalogues of
    long values (joined pattern lists of 0..600 characters, lines of up to 240 characters)."""
    assume(1 <= k <= len(LONG_GLOBS) and 1 <= m <= len(LONG_LINES) and 0 <= n <= len(LONG_LINES) and 0 <= rot < 3)
    if params.get("thin"):
        assume(rot == (k + m + n) % 3)
    pats = [LONG_GLOBS[(i + rot * 3) % len(LONG_GLOBS)] for i in range(k)]
    cps = [LONG_LINES[(i + rot) % len(LONG_LINES)].strip() for i in range(m)]
    lts = [LONG_LINES[(i + 2 * rot) % len(LONG_LINES)] for i in range(n)]
    t = tuple(pats)
    sp = _SpaceSeparated.to_str(t)
    require(_SpaceSeparated.from_str(sp) == t, "_SpaceSeparated round trip on a long list", t=t, s=sp, back=_SpaceSeparated.from_str(sp))
    saved = dc.io
    dc.io = IoShim()
    try:
        c = Copyright()
        c.header.upstream_name = "pkg"
        lic = License("GPL-2+ with a-very-long-exception-name-exception", "\n".join(lts))
        cp = "\n ".join(cps)
        c.add_files_paragraph(FilesParagraph.create(pats, cp, lic))
        c.add_license_paragraph(LicenseParagraph.create(License("MIT", "\n".join(lts[::-1]) or "Permission")))
        s1 = c.dump()
        c2 = Copyright(s1.splitlines(True), strict=True)
        fps = list(c2.all_files_paragraphs())
        require(len(fps) == 1, "paragraph kinds", text=s1)
        require(fps[0].files == t, "pattern list after dump and re-parse", got=fps[0].files, want=t, text=s1)
        require(fps[0].copyright == cp, "copyright text after dump and re-parse", got=fps[0].copyright, want=cp)
        require(fps[0].license == lic, "license of the Files paragraph after dump and re-parse", got=tuple(fps[0].license), want=tuple(lic))
        require(_summary(c2) == _summary(c), "re-parsed document differs", before=_summary(c), after=_summary(c2))
        require(c2.dump() == s1, "second dump differs")
    finally:
        dc.io = saved
    if k >= 3:
        reach(params, "long-list")


def partitions(tier, seed):
    P = []
    q = tier == "quick"
    import itertools
    L = (0, 1, 2) if q else (0, 1, 2, 3)
    for n in ((1, 2, 3) if q else (1, 2, 3, 4)):
        Ln = L if (q or n <= 2) else ((0, 1, 2) if n == 3 else (0, 1))
        for lens in itertools.product(Ln, repeat=n):
            if q and (sum(lens) > 4 or (n == 3 and max(lens) > 1 and sum(lens) > 3)):
                continue
            if not q and sum(lens) > 6:
                continue
            if lens == (0,):
                continue
            P.append(dict(name="codec/%s" % "-".join(map(str, lens)), harness="h_codec", params=dict(n=n, lens=list(lens)),
                          budget=60 if q else 400, reach=[], bounds="%d lines of exactly %s arbitrary characters" % (n, list(lens))))
    for n in (0, 1, 2) if q else (0, 1, 2, 3):
        for lens in itertools.product((0, 1, 2) if (q or n >= 2) else (0, 1, 2, 3), repeat=n + 1):
            if sum(lens) > (3 if q else 6) or (n and lens[-1] == 0):
                continue
            P.append(dict(name="license/%s" % "-".join(map(str, lens)), harness="h_license", params=dict(n=n, lens=list(lens)),
                          budget=60 if q else 400, reach=[], bounds="synopsis + %d text lines, lengths %s" % (n, list(lens))))
    for n in (0, 1, 2, 3):
        for lens in itertools.product((0, 1, 2) if (q or n >= 3) else (0, 1, 2, 3), repeat=n):
            if sum(lens) > (3 if q else 6):
                continue
            for hname in ("h_space", "h_linebased"):
                P.append(dict(name="%s/%s" % (hname[2:], "-".join(map(str, lens)) or "empty"), harness=hname, params=dict(n=n, lens=list(lens)),
                              budget=60 if q else 400, reach=[], bounds="tuple of %d values, lengths %s" % (n, list(lens))))
    P.append(dict(name="long/sizes", harness="h_long", params=dict(thin=True) if q else {}, budget=100 if q else 1500, reach=["long-list"],
                  bounds="1..%d long Files patterns x 1..%d copyright lines x 0..%d license lines (counts symbolic; values from catalogues, lines up to 240 chars)%s"
                         % (len(LONG_GLOBS), len(LONG_LINES), len(LONG_LINES), "; one rotation per size triple" if q else "; 3 rotations")))
    holes = [("pat",), ("cp1",), ("cp2",), ("syn",), ("lt1",), ("lt2",), ("uname",), ("pat2",)]
    if not q:
        holes += [("pat", "lt1"), ("cp2", "lt2"), ("syn", "cp1"), ("lt1", "lt2")]
    for shape in (("f1l1",) if q else ("f1l1", "f2l2", "l2", "hdr")):
        if SHAPES[shape]["files"] == 0 and shape != "hdr":
            hs = [h for h in holes if set(h) <= {"syn", "lt1", "lt2", "uname"}]
        elif shape == "hdr":
            hs = [("uname",)]
        else:
            hs = holes
        for h in hs:
            for ln in (((1, 2) if h == ("lt2",) else (1,)) if q else (0, 1, 2)):
                P.append(dict(name="doc/%s/%s/len%d" % (shape, "+".join(h), ln), harness="h_doc",
                              params=dict(shape=shape, hole=list(h), lens=[ln] * len(h)), budget=70 if q else 700, reach=[],
                              bounds="document shape %s, symbolic %s of %d arbitrary characters" % (shape, "+".join(h), ln)))
    return P
