"""C18 -- ed-style patch scripts are applied exactly."""
from debian import debian_support as ds
from debian.debian_support import patch_lines, patches_from_ed_script

from ..hx import assume, require, Skip

MANIFEST = dict(
    engines="AB",
    technique="symbolic execution (CrossHair+z3) of patches_from_ed_script/patch_lines with symbolic line numbers, command kind, text lines and line contents against reference ed semantics and an independent LCS diff; regex-to-SMT equivalence of the command regex with the ed command grammar",
    text="Engine A: for old files of up to 5 lines, every single command (Na, Nd, N,Md, Nc, N,Mc with symbolic in-range numbers and 0-2 symbolic text lines) and every descending two-command script gives exactly the reference ed result, for str and bytes; for all old/new files of up to 3-4 one-character lines (symbolic characters, i.e. every equality pattern) the script of an independent diff patches old into new; a symbolic command line of up to 4 characters is accepted iff it is in the grammar [0-9]+(,[0-9]+)?[acd] (and not a ranged 'a'), and unterminated text blocks raise ValueError. Engine B: the live command regexes (str and bytes) accept exactly that grammar for lines of any length. Unterminated blocks also after eight kinds of complete earlier commands.",
    note="Trusted: CrossHair/z3 models of int/str/list slicing; the reference ed semantics and diff in this file (written from ed(1)). Outside: semantically invalid but syntactically well-formed commands (reversed ranges, line numbers beyond the file, address 0 for c/d), text lines consisting of a single '.', diff -e itself.",
)

FUNCTIONS = ["debian.debian_support.patches_from_ed_script", "debian.debian_support.patch_lines"]
STUBS = []
ASSUMPTIONS = ["every script line ends in a newline (scripts are read from files)",
               "commands address existing lines (1<=N<=M<=n for c/d, 0<=N<=n for a); two-command scripts are in descending, non-overlapping order as produced by diff -e",
               "text lines are not a lone '.'"]
OUTSIDE = ["files longer than the partition bound", "scripts with more than two commands except through the diff harness"]


def _nl(kind):
    return b"\n" if kind == "bytes" else "\n"


def _enc(kind, s):
    return s.encode() if kind == "bytes" else s


def ed_apply(lines, cmd, n1, n2, text):
    """Reference semantics of one ed command on a 1-based buffer (from ed(1))."""
    out = list(lines)
    if cmd == "a":
        return out[:n1] + list(text) + out[n1:]
    if cmd == "d":
        return out[:n1 - 1] + out[n2:]
    return out[:n1 - 1] + list(text) + out[n2:]


def render(kind, cmd, n1, n2, text, single):
    """Script lines of one command."""
    if cmd == "a" or single:
        head = "%d%s" % (n1, cmd)
    else:
        head = "%d,%d%s" % (n1, n2, cmd)
    out = [_enc(kind, head) + _nl(kind)]
    if cmd != "d":
        out += list(text) + [_enc(kind, ".") + _nl(kind)]
    return out


def _apply_impl(old, script):
    lines = list(old)
    patch_lines(lines, patches_from_ed_script(script))
    return lines


def _cmd_ok(cmd, n1, n2, n):
    if cmd == "a":
        return (0 <= n1) & (n1 <= n)
    return (1 <= n1) & (n1 <= n2) & (n2 <= n)


CMDS = "acd"


def _text_ok(t, kind):
    """t is a legal text line body: no newline, not a lone '.', ASCII for bytes (non-forking)."""
    ok = True
    for ch in t:
        ok = ok & (ch != "\n")
        if kind == "bytes":
            ok = ok & (ord(ch) < 128)
    if len(t) == 1:
        ok = ok & (t != ".")
    return ok


def h_single(params, c: int, n1: int, n2: int, single: bool, k: int, t: str):
    """One command with symbolic numbers and text; result equals the reference."""
    kind, n = params["kind"], params["n"]
    assume(0 <= c < 3)
    cmd = CMDS[c]
    assume(_cmd_ok(cmd, n1, n2, n))
    if "lo" in params:
        assume((params["lo"] <= n1) & (n2 <= params["hi"]))
    if single:
        assume(n1 == n2)
    assume(0 <= k <= 2)
    assume(len(t) == params["tlen"])
    assume(_text_ok(t, kind))
    if cmd == "d":
        assume(k == 0)
    old = [_enc(kind, "L%d" % i) + _nl(kind) for i in range(n)]
    text = [_enc(kind, t) + _nl(kind), _enc(kind, "..") + _nl(kind)][:k]
    script = render(kind, cmd, n1, n2, text, single)
    got = _apply_impl(old, script)
    want = ed_apply(old, cmd, n1, n2, text)
    require(got == want, "single command result", script=script, got=got, want=want)


def h_two(params, c1: int, a1: int, a2: int, c2: int, b1: int, b2: int, t: str):
    """Two non-overlapping commands in descending order (what diff -e emits)."""
    kind, n = params["kind"], params["n"]
    assume(0 <= c1 < 3 and 0 <= c2 < 3)
    x, y = CMDS[c1], CMDS[c2]
    assume(_cmd_ok(x, a1, a2, n))
    assume(_cmd_ok(y, b1, b2, n))
    # second command lies strictly before the first one's range
    lo1 = a1 if x != "a" else a1 + 1
    hi2 = b2 if y != "a" else b1
    assume(hi2 < lo1)
    assume(len(t) == params["tlen"])
    assume(_text_ok(t, kind))
    old = [_enc(kind, "L%d" % i) + _nl(kind) for i in range(n)]
    text1 = [] if x == "d" else [_enc(kind, t) + _nl(kind)]
    text2 = [] if y == "d" else [_enc(kind, "Z") + _nl(kind), _enc(kind, t) + _nl(kind)]
    script = render(kind, x, a1, a2, text1, False) + render(kind, y, b1, b2, text2, b1 == b2)
    got = _apply_impl(old, script)
    want = ed_apply(ed_apply(old, x, a1, a2, text1), y, b1, b2, text2)
    require(got == want, "two-command script result", script=script, got=got, want=want)


def ed_script(old, new, kind):
    """Independent reference diff (LCS) rendered as an ed script, hunks in descending order."""
    n, m = len(old), len(new)
    L = [[0] * (m + 1) for _ in range(n + 1)]
    for i in range(n - 1, -1, -1):
        for j in range(m - 1, -1, -1):
            if old[i] == new[j]:
                L[i][j] = L[i + 1][j + 1] + 1
            else:
                L[i][j] = max(L[i + 1][j], L[i][j + 1])
    hunks = []
    i = j = 0
    i0, j0 = 0, 0
    while i < n and j < m:
        if old[i] == new[j]:
            if i > i0 or j > j0:
                hunks.append((i0, i, j0, j))
            i += 1
            j += 1
            i0, j0 = i, j
        elif L[i + 1][j] >= L[i][j + 1]:
            i += 1
        else:
            j += 1
    if i0 < n or j0 < m:
        hunks.append((i0, n, j0, m))
    script = []
    for (a, b, c, d) in reversed(hunks):
        text = new[c:d]
        if b > a and d > c:
            script += render(kind, "c", a + 1, b, text, b == a + 1)
        elif b > a:
            script += render(kind, "d", a + 1, b, [], b == a + 1)
        else:
            script += render(kind, "a", a, a, text, True)
    return script


def h_diff(params, o: str, w: str):
    """For all old/new files of one-character lines: diff, then patch, gives new."""
    kind = params["kind"]
    assume(len(o) == params["n_old"])
    assume(len(w) == params["n_new"])
    ok = True
    for ch in o + w:
        ok = ok & (ch != "\n") & (ch != ".") & (ord(ch) < 128)
    assume(ok)
    old = [_enc(kind, ch) + _nl(kind) for ch in o]
    new = [_enc(kind, ch) + _nl(kind) for ch in w]
    script = ed_script(old, new, kind)
    got = _apply_impl(old, script)
    require(got == new, "diff then patch", old=old, new=new, script=script, got=got)


def _in_grammar(cps):
    """[0-9]+(,[0-9]+)?[acd] and not a ranged 'a' (ASCII digits only); cps = list of code points."""
    n = len(cps)
    if n < 2:
        return False
    last = cps[n - 1]
    if not ((last == 97) | (last == 99) | (last == 100)):
        return False
    commas = 0
    prev_digit = False
    for i in range(n - 1):
        o = cps[i]
        if (48 <= o) & (o <= 57):
            prev_digit = True
        elif o == 44:
            if not prev_digit:
                return False
            commas += 1
            prev_digit = False
        else:
            return False
    if not prev_digit or commas > 1:
        return False
    if commas == 1 and last == 97:
        return False
    return True


def _numbers(cps):
    """(first, second or None) of a command in the grammar."""
    digs, out = "", []
    for o in cps[:-1]:
        if o == 44:
            out.append(int(digs))
            digs = ""
        else:
            digs += chr(o)
    out.append(int(digs))
    return out[0], (out[1] if len(out) > 1 else None)


def _cmdline(kind, line, cps):
    ok = _in_grammar(cps)
    if ok:
        # syntactically well-formed but semantically invalid addresses (reversed range, line 0 for
        # c/d) are malformed for ed as well: an implementation may accept or reject them
        first, second = _numbers(cps)
        if (second is not None and second < first) or (first == 0 and cps[len(cps) - 1] != 97):
            raise Skip("semantically invalid address: outcome not fixed by the statement")
    script = [line + _nl(kind)]
    if not (ok and cps[len(cps) - 1] == 100):
        script += [_enc(kind, "x") + _nl(kind), _enc(kind, ".") + _nl(kind)]
    try:
        res = list(patches_from_ed_script(script))
    except ValueError:
        require(not ok, "well-formed command rejected", s=line)
        return
    require(ok, "malformed command accepted", s=line, res=res)
    require(len(res) >= 1, "no patch produced", s=line)


def h_cmdline(params, s: str):
    """A symbolic command line (str) is accepted iff it is in the grammar."""
    assume(len(s) == params["len"])
    dom = True
    for ch in s:
        dom = dom & (ch != "\n")
    assume(dom)
    _cmdline("str", s, [ord(ch) for ch in s])


def h_cmdline_b(params, s: bytes):
    """A symbolic command line (bytes) is accepted iff it is in the grammar."""
    assume(len(s) == params["len"])
    dom = True
    for o in s:
        dom = dom & (o != 10)
    assume(dom)
    _cmdline("bytes", s, list(s))


UNTERMINATED_PRE = [[], ["5a", "X", "Y", "."], ["5a", "X", "."], ["4d"], ["4c", "Z", "."], ["5a", "X", ".", "4d"], ["5c", ".", "3,4d"], ["4a", "."]]


def h_unterminated(params, c: int, k: int, pre: int = 0):
    """Text blocks that are not terminated raise ValueError -- also after earlier, complete commands."""
    kind = params["kind"]
    assume(0 <= c < 2)
    assume(0 <= k <= 2)
    assume(0 <= pre < len(UNTERMINATED_PRE))
    cmd = "ac"[c]
    old = [_enc(kind, "L%d" % i) + _nl(kind) for i in range(5)]
    script = [_enc(kind, l) + _nl(kind) for l in UNTERMINATED_PRE[pre]]
    script += [_enc(kind, "2" + cmd) + _nl(kind)] + [_enc(kind, "t%d" % i) + _nl(kind) for i in range(k)]
    try:
        lines = list(old)
        patch_lines(lines, patches_from_ed_script(script))
    except ValueError:
        return
    require(False, "unterminated text block produced a result", script=script, result=lines)


def lemma_cmd_regex(params):
    from .. import re2smt as R
    S = R.Session(timeout_ms=60000)
    out = {"engine": "B", "counterexamples": [], "samples": []}
    cex, verdicts = [], []
    dig = R.chars("0123456789")
    gram = R.concat(R.plus(dig), R.opt(R.concat(R.lit(","), R.plus(dig))), R.chars("acd"), R.opt(R.lit("\n")))
    for kind, pat in (("str", ds._patch_re), ("bytes", ds._patch_re_b)):
        try:
            m = R.match(pat)
        except R.NotEncodable as e:
            S.counts["not_encodable"] += 1
            verdicts.append("not encodable")
            continue
        dom = R.star(R.ranges_re([(0, 127)])) if kind == "bytes" else R.SIGMA_STAR
        for name, a, b in (("%s: accepted => grammar" % kind, R.inter(m, dom), gram), ("%s: grammar => accepted" % kind, gram, m)):
            v, w = S.subset(a, b, name)
            verdicts.append(v)
            if v == "fails":
                line = w[:-1] if w.endswith("\n") else w
                if "\n" in line:
                    continue
                cex.append({"harness": "h_cmdline" if kind == "str" else "h_cmdline_b", "params": {"len": len(line)},
                            "args": {"s": line if kind == "str" else line.encode("latin-1")},
                            "message": "lemma %s fails for %r" % (name, w)})
    out.update(samples=S.log, counterexamples=cex, queries=S.counts, solver_s=round(S.solver_s, 3))
    if cex:
        out.update(verdict="counterexample", reason=cex[0]["message"])
    elif verdicts and all(v == "holds" for v in verdicts):
        out.update(verdict="confirmed", reason="%d inclusions unsat" % len(verdicts))
    else:
        out.update(verdict="inconclusive", reason=str(verdicts))
    return out


def partitions(tier, seed):
    P = [dict(name="lemma/cmd-regex", kind="py", func="lemma_cmd_regex", params={}, budget=120,
              bounds="command lines of any length")]
    q = tier == "quick"
    for kind in ("str", "bytes"):
        for n in ((0, 1, 3) if q else (0, 1, 2, 3, 4, 5)):
            for tl in ((0, 2) if q else (0, 1, 2, 3)):
                P.append(dict(name="single/%s/n%d/t%d" % (kind, n, tl), harness="h_single", params=dict(kind=kind, n=n, tlen=tl),
                              budget=80 if q else 900, bounds="old file of %d lines; any in-range command; 0-2 text lines, first one %d symbolic chars" % (n, tl)))
        for n, lo, hi in ((12, 7, 12), (101, 97, 101)):
            if q and (n == 101 or kind == "bytes"):
                continue
            P.append(dict(name="single/%s/n%d/long" % (kind, n), harness="h_single", params=dict(kind=kind, n=n, tlen=1, lo=lo, hi=hi),
                          budget=100 if q else 900, bounds="old file of %d lines; any command with line numbers in %d..%d (digit-width boundary)" % (n, lo, hi)))
        for n in ((3,) if q else (2, 3, 4, 5)):
            for tl in ((1,) if q else (0, 1, 2)):
                P.append(dict(name="two/%s/n%d/t%d" % (kind, n, tl), harness="h_two", params=dict(kind=kind, n=n, tlen=tl),
                              budget=100 if q else 1200, bounds="two descending non-overlapping commands on %d lines" % n))
        for no in range(0, (3 if q else 4) + 1):
            for nn in range(0, (3 if q else 4) + 1):
                if kind == "bytes" and (no + nn) % 2 and q:
                    continue
                P.append(dict(name="diff/%s/%d-%d" % (kind, no, nn), harness="h_diff", params=dict(kind=kind, n_old=no, n_new=nn),
                              budget=80 if q else 1200, bounds="all files of %d/%d one-character lines (every equality pattern)" % (no, nn)))
        for ln in range(0, ((4 if kind == "str" else 3) if q else 5) + 1):
            P.append(dict(name="cmdline/%s/len%d" % (kind, ln), harness="h_cmdline" if kind == "str" else "h_cmdline_b", params=dict(len=ln),
                          budget=80 if q else 900, bounds="all command lines of %d characters" % ln))
        P.append(dict(name="unterminated/%s" % kind, harness="h_unterminated", params=dict(kind=kind), budget=60,
                      bounds="a/c command followed by 0-2 text lines and no terminator"))
    return P
