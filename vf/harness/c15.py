"""C15 -- changelog parsing is total and strictness-consistent; output is a normal form."""
import warnings

from debian.changelog import Changelog, ChangelogCreateError, ChangelogParseError

from ..hx import assume, require, reach, Skip
from .c04 import valid as valid_component, no_boundary
from .c14 import spec_parse

MANIFEST = dict(
    engines="A",
    technique="symbolic execution (CrossHair+z3) of Changelog.parse_changelog in lenient and strict mode and of the formatting/editing API: line sequences are drawn by symbolic indices from a catalogue of ~24 line kinds, one fully symbolic line sits at a symbolic position, allow_empty_author is symbolic; editing calls take symbolic grammar-valid strings",
    text="Bounded model checking of the five-state parser: for every sequence of up to 3 (thorough: 4) catalogue lines (headers, trailers, one-space and empty-author trailers, change lines, blank lines, junk, '#' and /* */ comments, CVS keywords, emacs/vim mode lines, the eight old-format markers) inserted at every position of a well-formed changelog, and for one arbitrary symbolic line of up to 2-3 characters at any position: the lenient constructor never raises, strict parsing raises the parse error iff lenient parsing warns, and whenever str() succeeds its output re-parses to the same blocks and formats to the identical text. Editing (new_block, add_change, attribute assignment with grammar-valid symbolic strings) on empty and parsed changelogs is checked for the same normal-form property. Every pair of catalogue lines appended after two complete entries.",
    note="Catalogue lines are concrete and chosen by symbolic index (solver-driven enumeration of the state machine's input alphabet); the free line is fully symbolic. Assumed: editing arguments are valid for their grammar position (the API does not validate them, and the statement does not say what happens otherwise); text input is str (bytes decoding is outside).",
)

FUNCTIONS = ["debian.changelog.Changelog.parse_changelog", "debian.changelog.Changelog._parse_error", "debian.changelog.ChangeBlock._format",
             "debian.changelog.ChangeBlock.add_change", "debian.changelog.ChangeBlock.add_trailing_line", "debian.changelog.Changelog.new_block",
             "debian.changelog.Changelog._format"]
STUBS = []
ASSUMPTIONS = ["editing arguments are valid for their position in the deb-changelog grammar", "input is text (str / list of str lines)"]
OUTSIDE = ["sequences longer than 4 catalogue lines + 1 free line", "max_blocks", "non-UTF-8 encodings"]

HEAD = "foo (1.0-1) unstable; urgency=low"
TRAIL = " -- A B <a@b.c>  Thu, 12 Dec 2006 12:23:34 +0000"
CATALOGUE = [
    HEAD,
    TRAIL,
    " -- A B <a@b.c> Thu, 12 Dec 2006 12:23:34 +0000",          # one-space separator
    " --",                                                     # empty author
    "  * a change",
    "",
    "junk line",
    "# comment",
    ";; Local variables:",
    "Mon Jan  5 12:00:00 2004  A B  <a@b.c>",                  # old_format_re1
    "foo (1.0) unstable; urgency",                             # header with a broken key-value
    "foo (1.0) unstable; urgency=low, urgency=high",           # repeated key
    # ---- the first 12 kinds form the quick tier's alphabet for the second line
    "bar (2:0.9~rc1) experimental unstable; urgency=HIGH (security), binary-only=yes",
    " -- ",
    "   continued change",
    "   ",
    "/* c comment */",
    "$Id: x $",
    "Local variables:",
    "vim: tw=72",
    "Mon Jan 5, 2004  A B  (a@b.c)",                           # old_format_re2
    "pkg (1.0);",                                              # old_format_re3 (no distribution)
    "pkg-1.0 Debian 1",                                        # old_format_re4
    "Changes from version 1 to 2:",                            # re5
    "Changes for pkg-1.0:",                                    # re6
    "Old Changelog:",                                          # re7
    "1:pkg-2:",                                                # re8
    "foo (1.0) unstable; urgency=",                            # bad urgency value
]
BASE = [HEAD, "", "  * Initial.", "", TRAIL, "", "old (0.1) stable; urgency=medium", "", "  * Older.", "", TRAIL, ""]


def block_summary(c):
    out = []
    for b in c:
        try:
            ver = str(b.version)
        except ValueError:
            ver = ("invalid", b._raw_version)
        out.append((b.package, ver, b.distributions, b.urgency, tuple(b.changes()), b.author, b.date))
    return out


def check_text(lines, allow_empty, what):
    """The three claims of C15 for one input."""
    text = "\n".join(lines) + "\n"
    with warnings.catch_warnings(record=True) as log:
        warnings.simplefilter("always")
        try:
            lenient = Changelog(lines, allow_empty_author=allow_empty)
        except Exception as e:     # noqa: BLE001
            require(False, "lenient constructor raised %s: %s" % (type(e).__name__, e), lines=lines, allow_empty=allow_empty)
        nwarn = len(log)
    with warnings.catch_warnings(record=True) as log2:
        warnings.simplefilter("always")
        raised = False
        try:
            Changelog(lines, allow_empty_author=allow_empty, strict=True)
        except ChangelogParseError:
            raised = True
        require(len(log2) == 0 or raised, "strict mode warned instead of raising", lines=lines)
    require(raised == (nwarn > 0), "strict and lenient parsing disagree", lines=lines, allow_empty=allow_empty,
            strict_raised=raised, lenient_warnings=nwarn)
    # normal form
    try:
        out = lenient._format(allow_missing_author=allow_empty) if allow_empty else str(lenient)
    except ChangelogCreateError:
        return "unformattable"
    with warnings.catch_warnings(record=True):
        warnings.simplefilter("always")
        again = Changelog(out, allow_empty_author=allow_empty)
    require(block_summary(again) == block_summary(lenient), "formatted changelog re-parses to different blocks",
            lines=lines, out=out, before=block_summary(lenient), after=block_summary(again))
    out2 = again._format(allow_missing_author=allow_empty) if allow_empty else str(again)
    require(out2 == out, "formatting is not a fixpoint", lines=lines, out=out, out2=out2)
    return "ok"


def h_catalogue(params, pos: int, k1: int, k2: int, k3: int, k4: int, allow_empty: bool, base: int):
    n = params["n"]
    nc = len(CATALOGUE)
    ks = [k1, k2, k3, k4]
    for i in range(4):
        if i < n:
            assume(0 <= ks[i] < nc)
            if i == 0 and "first" in params:
                assume(params["first"][0] <= ks[i] < params["first"][1])
        else:
            assume(ks[i] == 0)
    assume(0 <= base <= 2)
    if "base" in params:
        assume(base == params["base"])
    doc = [BASE, BASE[:6], []][base]
    assume(0 <= pos <= len(doc))
    if "positions" in params:
        assume(pos in params["positions"])
    if "second" in params and n >= 2:
        assume(ks[1] < params["second"])
    ins = [CATALOGUE[k] for k in ks[:n]]
    lines = doc[:pos] + ins + doc[pos:]
    r = check_text(lines, allow_empty, "catalogue")
    reach(params, r)


def h_freeline(params, line: str, pos: int, allow_empty: bool):
    assume(len(line) == params["len"])
    assume(no_boundary(line))
    doc = BASE[:6]
    assume(0 <= pos <= len(doc))
    if "pos" in params:
        assume(pos == params["pos"])
    lines = doc[:pos] + [line] + doc[pos:]
    check_text(lines, allow_empty, "free line")


def h_edit(params, pkg: str, ver: str, dist: str, urg: str, change: str, op: int):
    """new_block / add_change / attribute assignment with grammar-valid symbolic strings."""
    lens = params["lens"]
    sym = params.get("sym", ["pkg", "ver", "dist", "urg", "change"])
    # components not listed in `sym` are pinned to concrete text (fewer symbolic strings, faster paths)
    if "pkg" not in sym:
        assume(pkg == "")
        pkg = "newpkg"
    if "ver" not in sym:
        assume(ver == "")
        ver = "2.0-1"
    if "dist" not in sym:
        assume(dist == "")
        dist = "unstable"
    if "urg" not in sym:
        assume(urg == "")
        urg = "medium"
    if "change" not in sym:
        assume(change == "")
        change = "text"
    for s, n, kind in ((pkg, lens[0], "pkg"), (ver, lens[1], "ver"), (dist, lens[2], "dist"), (urg, lens[3], "urg")):
        if kind in sym:
            assume(len(s) == n)
            assume(valid_component(kind, s))
    if "ver" in sym:
        sp = spec_parse(ver)
        assume(sp is not None and sp != "edge")
    if "change" in sym:
        assume(len(change) == lens[4])
        assume(no_boundary(change))
    assume(0 <= op < 6)
    if "op" in params:
        assume(op == params["op"])
    parsed = params["start"] in ("parsed", "truncated")
    if params["start"] == "truncated":
        # a changelog whose (only) block ended at EOF without a trailer, read leniently
        with warnings.catch_warnings(record=True):
            warnings.simplefilter("always")
            c = Changelog(BASE[:3])
    else:
        c = Changelog(BASE[:6]) if parsed else Changelog()
    author, date = "C D <c@d.e>", "Mon, 01 Jan 2024 00:00:00 +0000"
    if op == 0:
        c.new_block(package=pkg, version=ver, distributions=dist, urgency=urg, author=author, date=date)
        c.add_change("")
        c.add_change("  * " + change)
        c.add_change("")
    elif op == 1:
        c.new_block(package=pkg, version=ver, distributions=dist, urgency=urg, changes=["", "  " + change, ""], author=author, date=date)
    elif op == 2:
        assume(parsed)
        c.package = pkg
        c.version = ver
        c.distributions = dist
        c.urgency = urg
        c.author = author
        c.date = date
        c.add_change("  * " + change)
    elif op == 4:
        assume(parsed)
        c.date = date
        c.add_change("  * " + change)
    elif op == 5:
        assume(parsed)
        c.author = author
        c.package = pkg
    else:
        c.new_block()
        c.package = pkg
        c.version = ver
        c.distributions = dist
        c.urgency = urg
        c.author = author
        c.date = date
        c.add_change("  * " + change)
        c.add_change("")
    try:
        out = str(c)
    except ChangelogCreateError:
        return
    with warnings.catch_warnings(record=True) as log:
        warnings.simplefilter("always")
        again = Changelog(out)
    require(block_summary(again) == block_summary(c), "built changelog re-parses to different blocks", out=out,
            before=block_summary(c), after=block_summary(again))
    require(str(again) == out, "formatting is not a fixpoint", out=out, out2=str(again))
    if op not in (4, 5):
        require(again[0].package == pkg and str(again[0].version) == ver and again[0].distributions == dist and again[0].urgency == urg,
                "edited fields not read back", out=out)


def partitions(tier, seed):
    P = []
    q = tier == "quick"
    nc = len(CATALOGUE)
    chunks = [(i, min(nc, i + 7)) for i in range(0, nc, 7)]
    for lo, hi in chunks:
        P.append(dict(name="cat1/%d-%d" % (lo, hi), harness="h_catalogue", params=dict(n=1, first=[lo, hi]), budget=100 if q else 900, reach=["ok"],
                      bounds="one catalogue line %d..%d at every position of 3 base documents, allow_empty_author symbolic" % (lo, hi - 1)))
    step = 4 if q else 2
    for lo in range(0, nc, step):
        hi = min(nc, lo + step)
        pr = dict(n=2, first=[lo, hi])
        if q:
            pr.update(base=1, positions=[0, 1, 3, 5, 6], second=12)
        P.append(dict(name="cat2/%d-%d" % (lo, hi), harness="h_catalogue", params=pr, budget=100 if q else 1800, reach=[],
                      bounds="two catalogue lines (first %d..%d, second any) at every position" % (lo, hi - 1)))
    if q:
        # after TWO complete entries (where "the last entry" and "the first entry" differ): two lines at the very end
        for lo, hi in chunks:
            P.append(dict(name="cat2-tail/%d-%d" % (lo, hi), harness="h_catalogue", params=dict(n=2, first=[lo, hi], base=0, positions=[12]),
                          budget=100, reach=[], bounds="two catalogue lines (first %d..%d, second any) appended to a changelog of two entries" % (lo, hi - 1)))
    if not q:
        for lo in range(0, nc):
            P.append(dict(name="cat3/%d" % lo, harness="h_catalogue", params=dict(n=3, first=[lo, lo + 1]), budget=3000, reach=[],
                          bounds="three catalogue lines (first = %d) at every position" % lo))
    for ln in ((0, 1) if q else (0, 1, 2, 3)):
        for pos in range(0, 7):
            if q and pos not in (0, 1, 3, 4, 6):
                continue
            P.append(dict(name="free/len%d/pos%d" % (ln, pos), harness="h_freeline", params=dict(len=ln, pos=pos), budget=80 if q else 1500, reach=[],
                          bounds="one arbitrary line of %d characters inserted at position %d of a well-formed changelog" % (ln, pos)))
    for start in ("empty", "parsed", "truncated"):
        for op in range(6):
            if op in (2, 4, 5) and start == "empty":
                continue
            if op in (4, 5) and q and start != "truncated":
                continue
            for sym in ((["change"], ["pkg"]) if q else (["change"], ["pkg"], ["ver"], ["dist", "urg"], ["pkg", "change"])):
                for ln in ((1,) if q else (1, 2)):
                    P.append(dict(name="edit/%s/op%d/%s/len%d" % (start, op, "+".join(sym), ln), harness="h_edit",
                                  params=dict(start=start, lens=[ln] * 5, op=op, sym=sym), budget=60 if q else 900, reach=[],
                                  bounds="%s changelog, editing sequence %d, symbolic %s of %d chars" % (start, op, "+".join(sym), ln)))
    return P
