"""C01 -- the format-preserving parser is lossless: parse then dump reproduces the input."""
from debian._deb822_repro import parse_deb822_file
from debian._deb822_repro import tokens as tk
from debian._deb822_repro.tokens import tokenize_deb822_file

from ..hx import assume, require, reach, Skip

MANIFEST = dict(
    engines="AB",
    technique="symbolic execution (CrossHair+z3) of tokenize_deb822_file and parse_deb822_file(...).dump() on documents of 1-3 symbolic lines (line classes and lengths fixed per partition, characters symbolic, three newline modes); regex-to-SMT lemmas (unbounded line length) that the field-line regex consumes every line it matches and that the whitespace-line class is what the tokenizer assumes",
    text="Engine A: for documents of 1-2 (thorough: 3) lines, each line one of {arbitrary text, 'Name:'+arbitrary text, blank+arbitrary text, '#'+arbitrary text} with up to 2 (thorough: 3) arbitrary Unicode characters (no newline), with all lines newline-terminated, the last one unterminated, or (>= 2 lines) none terminated: the accepting parser returns, dump() equals the concatenation of the input (each line followed by a newline in the none-terminated form) and the token texts concatenate to the same string. Engine B: for lines of ANY length, match(_RE_FIELD_LINE) implies the five groups cover the whole line; whitespace-only lines are exactly full(_RE_WHITESPACE_LINE) and never start with '#'; lines starting with a blank never match the field regex. Run documents: two runs of 0-6 (thorough: 11) equal lines (blank/space/tab/comment/continuation/junk/field) with both run lengths symbolic plus a symbolic last line; and a parse preceded by a call that ended early (five kinds) is still lossless.",
    note="Trusted: CrossHair str/regex models (repaired), z3 regex theory. Field names reaching the tokenizer's dict cache are realised by CrossHair (hashing), so lines whose *name* is symbolic are explored by solver-driven enumeration of names; value/comment/continuation text stays symbolic. Outside: more than 3 lines, lines longer than 3 symbolic characters (engine A), bytes input, an empty unterminated last line.",
)

FUNCTIONS = ["debian._deb822_repro.tokens.tokenize_deb822_file", "debian._deb822_repro.tokens.Deb822Token._verify_token_text",
             "debian._deb822_repro.parsing.parse_deb822_file", "debian._deb822_repro.parsing._build_field_with_value",
             "debian._deb822_repro.parsing._build_value_line", "debian._deb822_repro._util.combine_into_replacement",
             "debian._deb822_repro._util.BufferingIterator.takewhile", "debian._deb822_repro.parsing.Deb822FileElement.dump",
             "debian._deb822_repro.parsing.Deb822Element.convert_to_text"]
STUBS = []
ASSUMPTIONS = ["no newline inside a line; in the terminated forms the (unterminated) last line is non-empty; in the none-terminated form empty strings are blank lines"]
OUTSIDE = ["documents of more than 3 lines other than the run documents (two runs of up to 11 equal lines) and the six templates", "more than 3 symbolic characters per line (engine A)", "bytes lines"]

PREFIX = {"F": "", "V": "Ab:", "C": " ", "T": "\t", "H": "#", "W": ""}


def line_ok(kind, s):
    ok = True
    for ch in s:
        ok = ok & (ch != "\n")
    if kind == "W":
        for ch in s:
            ok = ok & ((ch == " ") | (ch == "\t"))
    return ok


def h_doc(params, a: str, b: str, c: str):
    kinds, lens, mode = params["kinds"], params["lens"], params["mode"]
    n = len(kinds)
    syms = [a, b, c]
    body = []
    for i in range(3):
        if i < n:
            assume(len(syms[i]) <= lens[i])
            assume(line_ok(kinds[i], syms[i]))
            body.append(PREFIX[kinds[i]] + syms[i])
        else:
            assume(len(syms[i]) == 0)
    if mode == "all":
        lines = [l + "\n" for l in body]
        want = "".join(lines)
    elif mode == "last":
        assume(len(body[n - 1]) > 0)
        lines = [l + "\n" for l in body[:-1]] + [body[n - 1]]
        want = "".join(lines)
    else:  # none terminated (two or more lines); an empty string is a blank line here
        lines = list(body)
        want = "".join(l + "\n" for l in body)
    toks = list(tokenize_deb822_file(list(lines)))
    got_t = "".join(t.text for t in toks)
    require(got_t == want, "token texts do not concatenate to the input", lines=lines, got=got_t, want=want)
    doc = parse_deb822_file(list(lines), accept_files_with_error_tokens=True, accept_files_with_duplicated_fields=True)
    got = doc.dump()
    require(got == want, "dump() differs from the input", lines=lines, got=got, want=want)
    got2 = "".join(t.text for t in doc.iter_tokens())
    require(got2 == want, "iter_tokens() texts differ from the input", lines=lines, got=got2)


def h_template(params, x: str):
    """Concrete documents with one symbolic hole (adjacency of line classes)."""
    tpl = TEMPLATES[params["tpl"]]
    assume(len(x) == params["len"])
    assume(line_ok("F", x))
    lines = [l.replace("@", x) for l in tpl]
    if params["mode"] == "last":
        assume(len(lines[-1]) > 1)
        lines[-1] = lines[-1][:-1]
    want = "".join(lines)
    toks = list(tokenize_deb822_file(list(lines)))
    require("".join(t.text for t in toks) == want, "token texts do not concatenate to the input", lines=lines)
    doc = parse_deb822_file(list(lines), accept_files_with_error_tokens=True, accept_files_with_duplicated_fields=True)
    require(doc.dump() == want, "dump() differs from the input", lines=lines, got=doc.dump(), want=want)


TEMPLATES = [
    ["# c\n", "A: b\n", " @\n", "\n", "B: c\n"],
    ["A: 1\n", "@\n", "A: 2\n"],
    ["\n", " \n", "@\n"],
    ["A:@\n", "\t@\n", "#@\n", "B: x\n"],
    ["garbage\n", " @\n", "A: b\n", "\n", "\n", "@\n"],
    ["A: b\n", "# @\n", " c@\n", "\n", "@: d\n"],
]


RUN_LINES = {"blank": "\n", "space": " \n", "tab": "\t\n", "comment": "# c\n", "cont": " x\n", "junk": "junk\n", "field": "A: b\n"}
RUN_HEADS = [[], ["A: b\n"], ["A: b\n", " c\n"], ["# h\n"]]


def h_runs(params, n: int, m: int, x: str):
    """Runs of n + m lines of two classes (run lengths symbolic, 0..hi: the tokenizer buffers look-ahead in
    chunks of 5) after a concrete head, closed by a symbolic last line that may be unterminated."""
    hi = params["hi"]
    assume(0 <= n <= hi)
    assume(0 <= m <= hi)
    assume(len(x) <= params["len"])
    assume(line_ok(params["tail"], x))
    lines = list(RUN_HEADS[params["head"]])
    i = 0
    while i < n:
        lines.append(RUN_LINES[params["r1"]])
        i += 1
    i = 0
    while i < m:
        lines.append(RUN_LINES[params["r2"]])
        i += 1
    last = PREFIX[params["tail"]] + x
    if params["mode"] == "last":
        assume(len(last) > 0)
        lines.append(last)
    else:
        lines.append(last + "\n")
    want = "".join(lines)
    toks = list(tokenize_deb822_file(list(lines)))
    require("".join(t.text for t in toks) == want, "token texts do not concatenate to the input", lines=lines)
    doc = parse_deb822_file(list(lines), accept_files_with_error_tokens=True, accept_files_with_duplicated_fields=True)
    require(doc.dump() == want, "dump() differs from the input", lines=lines, got=doc.dump(), want=want)
    if n + m >= 7:
        reach(params, "run>=7")


# calls that end early (rejected input, abandoned token stream) before the call under test
ABORTED = [
    ("inconsistent-endings", ["# Header\n", "Source: foo", "Section: devel\n"]),
    ("inconsistent-endings-2", ["A: b\n", " c", "\n"]),
    ("error-tokens-rejected", ["junk\n", "A: b\n"]),
    ("duplicates-rejected", ["A: b\n", "A: c\n"]),
    ("abandoned-stream", ["# c\n", "A: b\n", " c\n", "junk\n", "B: d\n"]),
]


def h_after_abort(params, x: str):
    """State left behind by an earlier call that ended early must not leak into the next parse."""
    name, bad = ABORTED[params["prev"]]
    if name == "abandoned-stream":
        it = tokenize_deb822_file(list(bad))
        k = 0
        for _t in it:
            k += 1
            if k >= params.get("take", 2):
                break
        it2 = iter(parse_deb822_file(list(bad), accept_files_with_error_tokens=True).iter_tokens())
        next(it2)
    else:
        try:
            parse_deb822_file(list(bad))
        except Exception:   # noqa: BLE001  (rejection of the earlier input is not the subject here)
            pass
    reach(params, "aborted")
    tpl = TEMPLATES[params["tpl"]]
    assume(len(x) == params["len"])
    assume(line_ok("F", x))
    lines = [l.replace("@", x) for l in tpl]
    want = "".join(lines)
    toks = list(tokenize_deb822_file(list(lines)))
    require("".join(t.text for t in toks) == want, "token texts do not concatenate to the input (after an aborted call)", previous=bad, lines=lines)
    doc = parse_deb822_file(list(lines), accept_files_with_error_tokens=True, accept_files_with_duplicated_fields=True)
    require(doc.dump() == want, "dump() differs from the input (after an aborted call)", previous=bad, lines=lines, got=doc.dump(), want=want)


# ------------------------------------------------------------------ engine B
def lemma_line_regexes(params):
    from .. import re2smt as R
    S = R.Session(timeout_ms=120000)
    cex, verdicts = [], []
    try:
        f_match, f_full = R.match(tk._RE_FIELD_LINE), R.full(tk._RE_FIELD_LINE)
        ws_full = R.full(tk._RE_WHITESPACE_LINE)
        ws_match = R.match(tk._RE_WHITESPACE_LINE)
    except R.NotEncodable as e:
        S.counts["not_encodable"] += 1
        return {"engine": "B", "verdict": "inconclusive", "reason": "not encodable: %s" % e, "queries": S.counts, "counterexamples": []}
    nonl = R.not_chars("\n")
    LINE = R.concat(R.star(nonl), R.opt(R.lit("\n")))
    from .. import re2smt
    space = R.ranges_re(re2smt.categories()[("space", True)])
    checks = [
        ("a matched field line is consumed entirely", "subset", R.inter(LINE, f_match), f_full),
        ("whitespace-only lines are whitespace lines", "subset", R.inter(LINE, R.plus(space)), ws_match),
        ("whitespace lines are whitespace-only", "subset", R.inter(LINE, ws_match), R.plus(space)),
        ("whitespace lines never start with '#'", "disjoint", ws_match, R.concat(R.lit("#"), R.SIGMA_STAR)),
        ("lines starting with a blank are never field lines", "disjoint", R.concat(R.chars(" \t"), R.SIGMA_STAR), f_match),
        ("comment lines are never field lines", "disjoint", R.concat(R.lit("#"), R.SIGMA_STAR), f_match),
    ]
    for nm, kind, x, y in checks:
        v, w = (S.subset(x, y, nm) if kind == "subset" else S.disjoint(x, y, nm))
        verdicts.append(v)
        if v == "fails":
            cex.append({"harness": "h_lines", "params": {}, "args": {"l0": w if w.endswith("\n") else w + "\n", "l1": "A: b\n"},
                        "message": "lemma '%s' fails for %r" % (nm, w)})
            cex.append({"harness": "h_lines", "params": {}, "args": {"l0": "A: b\n", "l1": w if w.endswith("\n") else w + "\n"},
                        "message": "lemma '%s' fails for %r" % (nm, w)})
    out = {"engine": "B", "counterexamples": cex, "samples": S.log, "queries": S.counts, "solver_s": round(S.solver_s, 3)}
    if cex:
        out.update(verdict="counterexample", reason=cex[0]["message"])
    elif all(v == "holds" for v in verdicts):
        out.update(verdict="confirmed", reason="%d lemmas unsat" % len(verdicts))
    else:
        out.update(verdict="inconclusive", reason=str(verdicts))
    return out


def h_lines(params, l0: str, l1: str):
    """Replay of engine-B witnesses: a two-line document given verbatim."""
    lines = [l0, l1]
    for l in lines:
        assume(l.endswith("\n") and "\n" not in l[:-1])
    want = "".join(lines)
    toks = list(tokenize_deb822_file(list(lines)))
    require("".join(t.text for t in toks) == want, "token texts do not concatenate to the input", lines=lines)
    doc = parse_deb822_file(list(lines), accept_files_with_error_tokens=True, accept_files_with_duplicated_fields=True)
    require(doc.dump() == want, "dump() differs from the input", lines=lines, got=doc.dump(), want=want)


def partitions(tier, seed):
    import itertools
    P = [dict(name="lemma/line-regexes", kind="py", func="lemma_line_regexes", params={}, budget=400, bounds="lines of any length (code points <= U+2FFFF)")]
    q = tier == "quick"
    kinds = ["F", "V", "C", "H", "W"]
    for n in ((1, 2) if q else (1, 2, 3)):
        for ks in itertools.product(kinds, repeat=n):
            if n == 3 and (ks.count("F") > 1 or not ("F" in ks or "W" in ks)):
                continue
            for mode in ("all", "last", "none"):
                if mode == "none" and n < 2:
                    continue
                if q and n == 2 and mode == "all" and not ("F" in ks or "W" in ks):
                    continue
                if q:
                    ml = 2 if n == 1 else 1
                else:
                    ml = 3 if n == 1 else 2
                P.append(dict(name="doc/%s/max%d/%s" % ("".join(ks), ml, mode), harness="h_doc",
                              params=dict(kinds=list(ks), lens=[ml] * n, mode=mode), budget=45 if q else 500, reach=[],
                              bounds="lines of kinds %s (F free, V 'Ab:'+text, C ' '+text, H '#'+text, W blanks) each with 0..%d symbolic chars, newline mode %s" % ("".join(ks), ml, mode)))
    for t in range(len(TEMPLATES)):
        for ln in ((0, 1) if q else (0, 1, 2, 3)):
            for mode in ("all", "last"):
                P.append(dict(name="tpl/%d/len%d/%s" % (t, ln, mode), harness="h_template", params=dict(tpl=t, len=ln, mode=mode),
                              budget=45 if q else 900, reach=[], bounds="template %d with a hole of %d arbitrary chars" % (t, ln)))
    runs = [("blank", "space", "W"), ("space", "blank", "W"), ("blank", "tab", "F"), ("comment", "blank", "W"), ("cont", "comment", "C"),
            ("junk", "blank", "F"), ("field", "blank", "W"), ("comment", "cont", "H")]
    for ri, (r1, r2, tail) in enumerate(runs):
        for mode in ("all", "last"):
            head = (ri + (0 if mode == "all" else 1)) % len(RUN_HEADS)
            if q and (ri + (mode == "last")) % 2 and r1 not in ("blank", "space"):
                continue
            P.append(dict(name="runs/%s-%s-%s/%s" % (r1, r2, tail, mode), harness="h_runs",
                          params=dict(r1=r1, r2=r2, tail=tail, mode=mode, head=head, hi=6 if q else 11, len=1 if q else 2),
                          budget=60 if q else 900, reach=["run>=7"],
                          bounds="head %d, then 0..%d '%s' lines, then 0..%d '%s' lines (both counts symbolic), then a last line of kind %s with <= %d symbolic chars, newline mode %s"
                                 % (head, 6 if q else 11, r1, 6 if q else 11, r2, tail, 1 if q else 2, mode)))
    for pi in range(len(ABORTED)):
        for t in ((0, 3) if q else range(len(TEMPLATES))):
            P.append(dict(name="after-abort/%s/tpl%d" % (ABORTED[pi][0], t), harness="h_after_abort", params=dict(prev=pi, tpl=t, len=1, take=2),
                          budget=40 if q else 300, reach=["aborted"],
                          bounds="an earlier call on %r ends early, then template %d with a hole of 1 arbitrary char" % (ABORTED[pi][1], t)))
    return P
