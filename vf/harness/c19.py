"""C19 -- update_file converges to the published content and never corrupts the local file."""
import urllib.request

from debian import debian_support as ds

from ..hx import assume, require, reach, Skip
import gzip
import tempfile

from ..stubs import FakeFS, FakeOS, FakeRepo, FakeTransport, digest_sha1, digest_sha256
from .c18 import ed_script

MANIFEST = dict(
    engines="A",
    technique="symbolic execution (CrossHair+z3) of update_file/download_file/replace_file/PackageFile with the local state, index variant, fault kind, faulted patch and faulted write chosen by symbolic integers, over stubbed network, gzip, digest and file system",
    text="Bounded model checking of update_file's own logic: for 2-3 step histories published as ed patches + index + full file, every combination of local state (each old version, current, foreign, absent), index variant (SHA256, SHA1-only, missing, unparsable) and fault (none, patch j corrupted, patch j missing, wrong result hash, the f-th write/rename failing) either converges to the published content or raises with the local file byte-identical and no '.new' left. The solver enumerates the schedules; 'confirmed' means every feasible combination was executed. With the library's own download function: the downloaded patch j fails to decompress (EOFError, zlib.error, BadGzipFile); a history whose hunks straddle the 9/10 line-number boundary ('8,11c', '9,10c', '9,12d').",
    note="Stubs (part of the claim): FakeRepo for urllib/gzip (returns the published lines or IOError), an injective whitespace-free digest for read_lines_sha1/256, FakeFS for open/os.rename/os.unlink/os.path.exists (rename atomic; unlink and reads never fail). Real network, gzip, SHA and power-loss semantics are outside.",
)

FUNCTIONS = ["debian.debian_support.update_file", "debian.debian_support.download_file", "debian.debian_support.download_gunzip_lines",
             "debian.debian_support.replace_file", "debian.debian_support.PackageFile.__iter__",
             "debian.debian_support.PackageFile._aux_read_line",
             "debian.debian_support.patches_from_ed_script", "debian.debian_support.patch_lines"]
STUBS = ["FakeRepo (urlopen, download_gunzip_lines): published lines or IOError; in the 'update-real-download' partitions the library's own download_gunzip_lines runs and only tempfile.mkstemp, urllib.request.urlretrieve, gzip.open, os.close are stubbed (FakeTransport)",
         "injective digest for read_lines_sha1/read_lines_sha256 (collision-free by construction)",
         "FakeFS (module-global open, os.rename, os.unlink, os.path.exists): POSIX semantics on a dict; the f-th mutating call raises OSError"]
ASSUMPTIONS = ["digests are collision-free", "rename is atomic; unlink and reads do not fail",
               "an 'unusable' index is one that is absent or that PackageFile cannot parse"]
OUTSIDE = ["real urllib/gzip/_sha256", "crash (power-loss) semantics", "histories longer than 3 steps"]

REACH = {"h_update": ["fail-safe", "write-fault", "up-to-date", "patched", "full-download"]}

HISTORIES = {
    "h2": [["a\n", "b\n", "c\n"], ["a\n", "x\n", "c\n", "d\n"], ["x\n", "c\n", "d\n", "e\n"]],
    "h3": [["1\n"], ["0\n", "1\n", "2\n"], ["0\n", "2\n", "2\n", "3\n"], ["2\n", "3\n", "4\n"]],
    "h2b": [[], ["only\n"], ["first\n", "only\n", "last\n"]],
    "h1": [["k\n", "l\n"], ["k\n"]],
    # a form feed / other non-LF line-boundary characters inside lines, and later patches below them
    "hff": [["a\n", "b\n", "c\n", "d\n"], ["a\n", "x\x0cy\n", "b\n", "c\n", "d\n"], ["a\n", "x\x0cy\n", "b\n", "C\u2028\n", "d\n", "e\x1d\n"],
            ["a\n", "b\n", "C\u2028\n", "e\x1d\n", "f\n"]],
    # hunks whose line range straddles a digit-width boundary ('8,11c', '9,10c', a delete '9,11d' and an append '12a')
    "hwide": [["l%d\n" % i for i in range(1, 13)],
              ["l%d\n" % i for i in range(1, 8)] + ["X\n", "Y\n", "l12\n"],
              ["l%d\n" % i for i in range(1, 8)] + ["X\n", "Z\n"],
              ["l%d\n" % i for i in range(1, 8)] + ["X\n", "Z\n", "p\n", "q\n", "r\n", "s\n"],
              ["l%d\n" % i for i in range(1, 8)] + ["X\n", "s\n"]],
    "hdot": [["Description: x\n", " a\n"], ["Description: x\n", " a\n", " .\n", " b\n"], ["Description: y\n", " .\n", ". \n", " b\n"]],
}
REMOTE = "http://repo.invalid/dists/sid/main/Packages"
LOCAL = "/var/lib/x/Packages"
FOREIGN = ["not\n", "in\n", "history\n"]


def publish(hist, variant, fault, j):
    """Objects on the repository for a given index variant and network-side fault."""
    n = len(hist) - 1
    objs = {REMOTE + ".gz": list(hist[n])}
    dg = digest_sha1 if variant == 1 else digest_sha256
    prefix = "SHA1" if variant == 1 else "SHA256"
    patches = []
    for i in range(n):
        p = ed_script(hist[i], hist[i + 1], "str")
        name = "patch-%d" % i
        patches.append((name, p))
    cur = dg(hist[n])
    if fault == 3:
        cur = dg(hist[n] + ["tampered\n"])
    idx = ["%s-Current: %s %d\n" % (prefix, cur, len("".join(hist[n])))]
    idx.append("%s-History:\n" % prefix)
    for i in range(n):
        idx.append(" %s %d %s\n" % (dg(hist[i]), len("".join(hist[i])), patches[i][0]))
    idx.append("%s-Patches:\n" % prefix)
    for i in range(n):
        idx.append(" %s %d %s\n" % (dg(patches[i][1]), len("".join(patches[i][1])), patches[i][0]))
    if variant == 3:
        idx = ["this line is not a field\n"] + idx
    if variant != 2:
        objs[REMOTE + ".diff/Index"] = idx
    for i, (name, p) in enumerate(patches):
        content = list(p)
        if fault == 1 and i == j:
            content = content + ["0a\n", "garbled\n", ".\n"]
        if fault == 2 and i == j:
            continue
        objs[REMOTE + ".diff/" + name + ".gz"] = content
    return objs


def run_update(hist, L, variant, fault, j, f, real_download=False):
    n = len(hist) - 1
    files = {}
    if L <= n:
        files[LOCAL] = "".join(hist[L])
    elif L == n + 1:
        files[LOCAL] = "".join(FOREIGN)
    fs = FakeFS(files, fail_at=f if fault == 4 else -1)
    repo = FakeRepo(publish(hist, variant, fault, j))
    saved = (ds.__dict__.get("open"), ds.os, ds.download_gunzip_lines, ds.read_lines_sha1,
             ds.read_lines_sha256, urllib.request.urlopen)
    transport = FakeTransport(repo, fs)
    if fault in (5, 6, 7):
        # the downloaded patch j cannot be decompressed: truncated stream / damaged deflate data / bad header
        import zlib
        transport.bad_url = REMOTE + ".diff/patch-%d.gz" % j
        transport.bad_exc = {5: EOFError("Compressed file ended before the end-of-stream marker was reached"),
                             6: zlib.error("Error -3 while decompressing data: invalid stored block lengths"),
                             7: gzip.BadGzipFile("Not a gzipped file (b'xx')")}[fault]
    saved2 = (gzip.open, tempfile.mkstemp, urllib.request.urlretrieve)
    ds.open = fs.open
    ds.os = FakeOS(fs)
    if real_download:
        # the library's own download_gunzip_lines runs; only its I/O primitives are stubbed
        gzip.open, tempfile.mkstemp, urllib.request.urlretrieve = transport.gzip_open, transport.mkstemp, transport.urlretrieve
    else:
        ds.download_gunzip_lines = repo.gunzip_lines
    ds.read_lines_sha1 = digest_sha1
    ds.read_lines_sha256 = digest_sha256
    urllib.request.urlopen = repo.urlopen
    exc = None
    ret = None
    try:
        try:
            ret = ds.update_file(REMOTE, LOCAL)
        except Exception as e:      # noqa: BLE001  (any error is a legitimate 'raise')
            exc = e
    finally:
        if saved[0] is None:
            del ds.open
        else:
            ds.open = saved[0]
        ds.os, ds.download_gunzip_lines, ds.read_lines_sha1, ds.read_lines_sha256 = saved[1:5]
        urllib.request.urlopen = saved[5]
        gzip.open, tempfile.mkstemp, urllib.request.urlretrieve = saved2
    return files, fs, repo, ret, exc


def h_update(params, L: int, variant: int, fault: int, j: int, f: int):
    hist = HISTORIES[params["history"]]
    n = len(hist) - 1
    assume(0 <= L <= n + 2)
    assume(0 <= variant <= 3)
    assume(0 <= fault <= (7 if params.get("real_download") else 4))
    assume(0 <= j < n)
    assume(0 <= f <= params["max_f"])
    if fault not in (1, 2, 5, 6, 7):
        assume(j == 0)
    if fault != 4:
        assume(f == 0)
    before, fs, repo, ret, exc = run_update(hist, L, variant, fault, j, f, real_download=params.get("real_download", False))
    current = hist[n]
    usable = variant in (0, 1)
    patching = usable and L < n
    # which outcome does the statement demand?
    if fault in (1, 2, 5, 6, 7):
        must_fail = patching and j >= L
    elif fault == 3:
        must_fail = patching
    elif fault == 4:
        must_fail = fs.fired
    else:
        must_fail = False
    if must_fail:
        require(exc is not None, "a fault was injected but no error was raised",
                L=L, variant=variant, fault=fault, j=j, f=f, ret=ret)
        require(fs.files.get(LOCAL) == before.get(LOCAL), "local file changed although the update failed",
                L=L, variant=variant, fault=fault, j=j, f=f, before=before.get(LOCAL), after=fs.files.get(LOCAL))
        require(LOCAL + ".new" not in fs.files, "temporary file left behind", L=L, variant=variant, fault=fault, j=j, f=f)
        require(sorted(fs.files) == sorted(before), "unexpected files (temporary download left behind?)", files=sorted(fs.files))
        reach(params, "fail-safe")
        if fault == 4:
            reach(params, "write-fault")
    else:
        require(exc is None, "update failed without a fault: %r" % (exc,), L=L, variant=variant, fault=fault, j=j, f=f)
        require(ret == current, "returned lines differ from the published content", L=L, variant=variant, fault=fault, ret=ret)
        require(fs.files.get(LOCAL) == "".join(current), "local file differs from the published content",
                L=L, variant=variant, fault=fault, got=fs.files.get(LOCAL))
        require(LOCAL + ".new" not in fs.files, "temporary file left behind", L=L, variant=variant)
        require(sorted(fs.files) == [LOCAL], "unexpected files", files=sorted(fs.files))
        if usable and L == n and fault != 3:
            require(not any(u.endswith(".gz") for u in repo.requests), "up-to-date file was downloaded again", reqs=repo.requests)
            reach(params, "up-to-date")
        if patching:
            reach(params, "patched")
        if not usable:
            reach(params, "full-download")


def partitions(tier, seed):
    P = []
    hs = ("h2", "h1", "hdot", "hwide") if tier == "quick" else ("h2", "h3", "h2b", "h1", "hdot", "hwide")
    for h in (("hff", "h2") if tier == "quick" else ("hff", "h2", "h3", "hdot", "hwide")):
        P.append(dict(name="update-real-download/%s" % h, harness="h_update", params=dict(history=h, max_f=9 if tier == "quick" else 12, real_download=True),
                      budget=150 if tier == "quick" else 1200,
                      bounds="history %s with the library's own download_gunzip_lines running over stubbed mkstemp/urlretrieve/gzip.open; same state x index x fault space, plus: patch j cannot be decompressed (EOFError, zlib.error, BadGzipFile)" % h))
    for h in hs:
        P.append(dict(name="update/%s" % h, harness="h_update", params=dict(history=h, max_f=8 if tier == "quick" else 10),
                      budget=150 if tier == "quick" else 1200,
                      bounds="history %s (%d versions); local in {each version, current, foreign, absent}; index in {sha256, sha1, missing, broken}; fault in {none, patch j corrupted, patch j missing, wrong result hash, f-th write/rename fails}" % (h, len(HISTORIES[h]))))
    return P
