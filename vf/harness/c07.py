"""C07 -- DebFile returns what was packed and rejects malformed packages (REDUCED SCOPE, see MANIFEST)."""
import io
import tarfile

from debian.debfile import DebError, DebFile

from ..hx import assume, require, reach, Skip
from ..stubs import PyFile

MANIFEST = dict(
    engines="A",
    technique="symbolic execution (CrossHair+z3) of DebFile.__init__ part discovery over archives whose member set and member order are symbolic (bitmask and rotation), and of DebPart name normalisation/has_file/__contains__/get_content with a symbolic query name on one concrete uncompressed package",
    text="(0) Content matrix (solver-driven enumeration of configurations, every path reads a real prebuilt package): for all 5x5 compression pairs, subsets of maintainer scripts with empty and non-empty bodies, four data file sets (names with spaces, trailing blank, dot names; empty and binary contents) and three member orders, debcontrol(), scripts(), md5sums() (bytes and text), has_file/in/get_content in the three spellings return exactly what was packed. (a) Rejection matrix: for every subset of the 11 relevant member names (debian-binary, control.tar[.gz|.bz2|.xz|.lzma], data.tar[.gz|.bz2|.xz|.lzma], plus a foreign member) in rotated/reversed order, DebFile(fileobj=...) raises the package-format error exactly when debian-binary is missing, a part is missing, or a part has two candidates, and otherwise reports the version and selects the unique candidates. (b) Path spelling: for every query name of up to 3 symbolic characters (and the packed names with a symbolic suffix), has_file, `in` and get_content answer identically for 'name', './name' and '/name' and agree with the packed file set. A 300 kB incompressible member between two small ones is read alternately with control queries through one file object (all 5x5 compression pairs, 3 member orders).",
    note="The tarballs and their compression are C-level codecs (tarfile, gzip, bz2, lzma, struct): file *contents and names* cannot be symbolic there -- a symbolic input would be realised at that boundary. Part (0) therefore quantifies over configurations by symbolic index with contents/names from catalogues (bounded enumeration driven by the solver, labelled so); arbitrary control fields, names and contents remain outside the claim. PyFile stands for the file object; packages are built with the stdlib at import time.",
)

FUNCTIONS = ["debian.debfile.DebControl.scripts", "debian.debfile.DebControl.md5sums", "debian.debfile.DebControl.debcontrol", "debian.debfile.DebPart.tgz",
             "debian.debfile.DebFile.__init__", "debian.debfile.DebPart.__normalize_member", "debian.debfile.DebPart.has_file",
             "debian.debfile.DebPart.__contains__", "debian.debfile.DebPart.get_content", "debian.arfile.ArFile.__collect_members"]
STUBS = ["PyFile for the archive file object; concrete uncompressed tar members built with the stdlib at import time"]
ASSUMPTIONS = ["query names do not themselves start with '/' or './' (they are the relative names of packed files)"]
OUTSIDE = ["arbitrary (symbolic) control fields, file names and file contents inside the tarballs: C-level codecs, not encodable; only catalogue values chosen by symbolic index",
           "member names longer than 15 bytes"]

NAMES = ["debian-binary", "control.tar", "control.tar.gz", "control.tar.bz2", "control.tar.xz", "control.tar.lzma",
         "data.tar", "data.tar.gz", "data.tar.bz2", "data.tar.xz", "data.tar.lzma", "_gpgorigin"]


def _tar(files):
    buf = io.BytesIO()
    with tarfile.open(fileobj=buf, mode="w", format=tarfile.GNU_FORMAT) as t:
        for name, data in files:
            ti = tarfile.TarInfo("./" + name)
            ti.size = len(data)
            t.addfile(ti, io.BytesIO(data))
    return buf.getvalue()


def _ar(members):
    raw = b"!<arch>\n"
    for name, data in members:
        h = name.encode().ljust(16) + b"0".ljust(12) + b"0".ljust(6) + b"0".ljust(6) + b"100644".ljust(8) + \
            str(len(data)).encode().ljust(10) + b"`\n"
        raw += h + data + (b"\n" if len(data) % 2 else b"")
    return raw


# prebuilt at import time (outside symbolic execution): one tiny tar per candidate, marked by its index
PART_TARS = {i: _tar([("marker-%d" % i, b"m%d" % i)]) for i in range(1, 11)}
PACKED = {"control": b"Package: x\n", "usr/bin/x": b"#!/bin/sh\n", "usr/share/doc/x y/z": b"spaces", ".hidden": b"h", "a": b"A"}
PKG = _ar([("debian-binary", b"2.0\n"),
           ("control.tar", _tar([("control", PACKED["control"])])),
           ("data.tar", _tar([(n, d) for n, d in PACKED.items() if n != "control"]))])


def h_matrix(params, m0: bool, m1: bool, m2: bool, m3: bool, m4: bool, m5: bool, m6: bool, m7: bool, m8: bool, m9: bool,
             m10: bool, m11: bool, rot: int, rev: bool):
    """Member presence is one symbolic boolean per candidate name (four of them fixed per partition)."""
    bits = [m0, m1, m2, m3, m4, m5, m6, m7, m8, m9, m10, m11]
    n = len(NAMES)
    for i, v in enumerate(params["fixed"]):
        assume(bits[i] == v)
    assume(0 <= rot < 3)
    chosen = [i for i in range(n) if bits[i]]
    if params.get("thin"):
        assume(rot == len(chosen) % 3)
        assume(rev == (len(chosen) % 2 == 1))
    order = chosen[rot % max(1, len(chosen)):] + chosen[:rot % max(1, len(chosen))]
    if rev:
        order = order[::-1]
    members = []
    for i in order:
        if i == 0:
            members.append((NAMES[0], b"2.0\n"))
        elif i == 11:
            members.append((NAMES[11], b"sig"))
        else:
            members.append((NAMES[i], PART_TARS[i]))
    raw = _ar(members)
    ctrl = [i for i in chosen if 1 <= i <= 5]
    data = [i for i in chosen if 6 <= i <= 10]
    ok = (0 in chosen) and len(ctrl) == 1 and len(data) == 1
    try:
        deb = DebFile(fileobj=PyFile(raw))
    except DebError:
        require(not ok, "well-formed package rejected", members=[m[0] for m in members])
        reach(params, "rejected")
        return
    require(ok, "malformed package accepted", members=[m[0] for m in members])
    require(deb.version == b"2.0", "version bytes", got=deb.version)
    require(deb.control.has_file("marker-%d" % ctrl[0]), "control part is not the unique candidate", members=[m[0] for m in members])
    require(deb.data.has_file("marker-%d" % data[0]), "data part is not the unique candidate", members=[m[0] for m in members])
    require(deb.getnames() == [m[0] for m in members], "member listing")
    reach(params, "accepted")


# ------------------------------------------------------------------ content matrix (configurations by symbolic index)
import bz2
import gzip
import hashlib
import lzma

COMPRESSIONS = ["", "gz", "bz2", "xz", "lzma"]
SCRIPT_NAMES = ["preinst", "postinst", "prerm", "postrm", "config"]
SCRIPT_BODIES = [b"#!/bin/sh\nexit 0\n", b"", b"#!/bin/sh\n# \xc3\xa9\n"]
DATA_SETS = [
    [("usr/bin/x", b"#!/bin/sh\n"), ("usr/share/doc/x y/z", b"spaces"), (".hidden", b"h")],
    [("a", b""), ("etc/name with  two spaces", b"\x00\x01\xff"), ("etc/trailing ", b"t")],
    [],
    [("usr/lib/..data", b"d"), ("usr/lib/x.so.1", b"\x7fELF" + b"\x00" * 40)],
    # a member whose compressed size exceeds every decompressor's read buffer (8 KiB lzma/xz, 128 KiB gzip), between
    # two small ones: the readers of the control and data parts share one file object and are used alternately
    [("usr/bin/first", b"1st\n"), ("usr/share/big.bin", __import__("random").Random(7).randbytes(300000)), ("usr/share/last", b"last\n")],
]
BIG = len(DATA_SETS) - 1


def _compress(kind, raw):
    if kind == "gz":
        return gzip.compress(raw, mtime=0)
    if kind == "bz2":
        return bz2.compress(raw)
    if kind == "xz":
        return lzma.compress(raw, format=lzma.FORMAT_XZ)
    if kind == "lzma":
        return lzma.compress(raw, format=lzma.FORMAT_ALONE)
    return raw


def _control_files(mask, bodysel, ds):
    files = [("control", b"Package: x\nVersion: 1.0-1\nDescription: short\n long line\n .\n more\n")]
    scripts = {}
    for i, n in enumerate(SCRIPT_NAMES):
        if (mask >> i) & 1:
            body = SCRIPT_BODIES[(bodysel + i) % len(SCRIPT_BODIES)]
            files.append((n, body))
            scripts[n] = body
    md5 = b"".join(hashlib.md5(d).hexdigest().encode() + b"  " + n.encode() + b"\n" for n, d in DATA_SETS[ds])
    files.append(("md5sums", md5))
    return files, scripts


_PART_CACHE = {}


def _part(kind, key, files):
    k = (kind, key)
    if k not in _PART_CACHE:
        _PART_CACHE[k] = _compress(kind, _tar(files))
    return _PART_CACHE[k]


# prebuilt outside symbolic execution (import time): every control variant and data set in every compression
for _m in range(32):
    for _b in range(3):
        for _ds in range(len(DATA_SETS)):
            if (_m in (0, 31, 5, 10, 21) and _ds != BIG) or (_b == 0 and _ds == 0) or (_ds == BIG and _m == 21 and _b == 0):
                for _c in COMPRESSIONS:
                    _part(_c, ("ctrl", _m, _b, _ds), _control_files(_m, _b, _ds)[0])
for _ds in range(len(DATA_SETS)):
    for _c in COMPRESSIONS:
        _part(_c, ("data", _ds), DATA_SETS[_ds])


def h_content(params, cc: int, dc: int, mask: int, bodysel: int, ds: int, order: int):
    """The package reader returns exactly what was packed, for every compression pair, subset of maintainer
    scripts (empty and non-empty), data file set and member order.  Configurations are chosen by symbolic
    indices; every path runs the real reader on a real (prebuilt) package."""
    assume(0 <= cc < 5 and 0 <= dc < 5)
    if "cc" in params:
        assume(cc == params["cc"])
    assume((ds == BIG) == bool(params.get("big")))
    assume(0 <= mask < 32 and 0 <= bodysel < 3 and 0 <= ds < len(DATA_SETS) and 0 <= order < 3)
    assume((mask in (0, 31, 5, 10, 21) and ds != BIG) or (bodysel == 0 and ds == 0) or (ds == BIG and mask == 21 and bodysel == 0))
    if params.get("thin"):
        assume(order == (mask + dc + ds) % 3)
    files, scripts = _control_files(mask, bodysel, ds)
    cname = "control.tar" + ("." + COMPRESSIONS[cc] if COMPRESSIONS[cc] else "")
    dname = "data.tar" + ("." + COMPRESSIONS[dc] if COMPRESSIONS[dc] else "")
    members = [("debian-binary", b"2.0\n"), (cname, _part(COMPRESSIONS[cc], ("ctrl", mask, bodysel, ds), files)),
               (dname, _part(COMPRESSIONS[dc], ("data", ds), DATA_SETS[ds]))]
    if order == 1:
        members = [members[0], members[2], members[1]]
    elif order == 2:
        members = [members[2], members[1], members[0]]
    deb = DebFile(fileobj=PyFile(_ar(members)))
    require(deb.version == b"2.0", "version")
    ctl = deb.debcontrol()
    require(list(ctl.items()) == [("Package", "x"), ("Version", "1.0-1"), ("Description", "short\n long line\n .\n more")],
            "control fields differ from what was packed", got=list(ctl.items()))
    got_scripts = deb.scripts()
    require(got_scripts == scripts, "maintainer scripts differ from what was packed", got=got_scripts, want=scripts, compression=cname)
    want_md5 = {n.encode(): hashlib.md5(d).hexdigest() for n, d in DATA_SETS[ds]}
    require(deb.md5sums() == want_md5, "md5sums map differs from what was packed", got=deb.md5sums(), want=want_md5)
    require(deb.md5sums(encoding="utf-8") == {k.decode(): v for k, v in want_md5.items()}, "md5sums (text) map differs", got=deb.md5sums(encoding="utf-8"))
    for n, d in DATA_SETS[ds]:
        for sp in (n, "./" + n, "/" + n):
            require(deb.data.has_file(sp) and (sp in deb.data), "packed file not found", spelling=sp, compression=dname)
            require(deb.data.get_content(sp) == d, "content differs from what was packed", spelling=sp, compression=dname)
        require(hashlib.md5(deb.data.get_content(n)).hexdigest() == deb.md5sums()[n.encode()], "md5 of content vs md5sums entry", name=n)
    for n, d in files:
        require(deb.control.get_content(n) == d, "control member content", name=n)
    for absent in ("nonexistent", "usr/bin", "control"):
        if absent not in [n for n, _ in DATA_SETS[ds]]:
            require(not deb.data.has_file(absent) or absent == "usr/bin", "absent file reported", name=absent)
    reach(params, "read")


def h_spelling(params, q: str):
    """has_file / in / get_content answer identically for q, ./q and /q and agree with the packed set."""
    stem = params["stem"]
    assume(len(q) == params["len"])
    ok = True
    for ch in q:
        o = ord(ch)
        ok = ok & (o != 0) & (o < 0x250)
    assume(ok)
    name = stem + q if params.get("suffix", True) else q + stem
    assume(len(name) > 0)
    assume(not name.startswith("/"))
    assume(not name.startswith("./"))
    deb = DebFile(fileobj=PyFile(PKG))
    for part, packed in ((deb.data, [n for n in PACKED if n != "control"]), (deb.control, ["control"])):
        want = name in packed
        answers = []
        for sp in (name, "./" + name, "/" + name):
            a = part.has_file(sp)
            b = sp in part
            require(a == b, "has_file and `in` disagree", spelling=sp)
            answers.append(a)
        require(answers == [want, want, want], "membership differs between spellings or from the packed set", name=name, answers=answers, want=want)
        if want:
            for sp in (name, "./" + name, "/" + name):
                require(part.get_content(sp) == PACKED[name], "content differs for spelling", spelling=sp)
            reach(params, "present")


def partitions(tier, seed):
    P = []
    q = tier == "quick"
    import itertools
    for fixed in itertools.product((False, True), repeat=4 if q else 5):
        P.append(dict(name="matrix/%s" % "".join("1" if v else "0" for v in fixed), harness="h_matrix",
                      params=dict(fixed=list(fixed), **({"thin": True} if q else {})), budget=100 if q else 900, reach=[],
                      bounds="member subsets with the first %d presence bits fixed to %s, the other %d symbolic; %s" % (
                          len(fixed), list(fixed), 12 - len(fixed), "one order per subset" if q else "3 rotations x 2 directions")))
    for cc in range(5):
        P.append(dict(name="content/ctrl-%s" % (COMPRESSIONS[cc] or "plain"), harness="h_content", params=dict(cc=cc, **({"thin": True} if q else {})), budget=120 if q else 900, reach=["read"],
                      bounds="control part %s x 5 data compressions x script subsets (empty and non-empty bodies) x 5 data file sets (one with a 300 kB incompressible member) x 3 member orders, chosen by symbolic index" % (COMPRESSIONS[cc] or "uncompressed")))
    P.append(dict(name="content/big-member", harness="h_content", params=dict(big=True), budget=120 if q else 900, reach=["read"],
                  bounds="5 x 5 compression pairs x 3 member orders around a 300 kB incompressible data member read between control queries (one shared file object)"))
    for stem, suffix in (("", True), ("usr/bin/", True), ("a", True), ("control", True), (".hidden", True), ("x", False), ("usr/share/doc/x y/", True)):
        for ln in ((0, 1, 2) if q else (0, 1, 2, 3)):
            if stem == "" and ln == 0:
                continue
            P.append(dict(name="spelling/%s/%s%d" % (stem or "empty", "suffix" if suffix else "prefix", ln), harness="h_spelling",
                          params=dict(stem=stem, len=ln, suffix=suffix), budget=80 if q else 900, reach=[],
                          bounds="query = %r %s %d symbolic chars" % (stem, "+" if suffix else "preceded by", ln)))
    return P
