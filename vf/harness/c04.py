"""C04 -- well-formed changelogs round-trip byte-for-byte through Changelog."""
import warnings

from debian import changelog as cl
from debian.changelog import Changelog, ChangelogParseError

from ..hx import assume, require, reach, Skip
from .c14 import spec_parse

MANIFEST = dict(
    engines="AB",
    technique="symbolic execution (CrossHair+z3) of Changelog.parse_changelog (strict) and ChangeBlock._format over deb-changelog(5) templates with symbolic package, version, distribution, urgency, urgency comment, extra key/value, change text, author and e-mail; regex-to-SMT lemmas that every grammar-shaped header/trailer/change line is in the language of the regex that must select it",
    text="Engine A: for changelog templates (1-2 blocks; 1-2 distributions; urgency with/without comment; 0-1 extra key=value; change lines with blank lines, '#' and ':' in the text; trailer dates with/without weekday and 1/2-digit day; optional leading blank lines) with one or two components symbolic (up to 2-3 characters over the component's alphabet; change text arbitrary Unicode without line breaks): strict parsing raises nothing and warns nothing, str() reproduces the text byte-for-byte, and the blocks expose exactly the written fields in order. Engine B (line length unbounded): HEADER in match(topline), TRAILER in full(endline) with the two-space separator, CHANGE in full(changere) and outside endline/endline_nodetails, KEY=VALUE in full(keyvalue), urgency values in full(value_re), headers never blank. A shape with three extra key=value pairs in unsorted order (their order is compared).",
    note="Trusted: CrossHair str/regex models (repaired; IGNORECASE mask repair), z3 regex theory with alphabet clipping to U+0000..U+00FF for the lemmas. Outside: more than 2 blocks, bytes/file inputs (one concrete template each), max_blocks.",
)

FUNCTIONS = ["debian.changelog.Changelog.parse_changelog", "debian.changelog.ChangeBlock._format", "debian.changelog.Changelog._format",
             "debian.changelog.Changelog._parse_error"]
STUBS = []
ASSUMPTIONS = ["package: [a-z0-9][a-z0-9+.-]*; version: Policy version characters; distribution: [a-z0-9+.-]+; urgency and keys: [a-z0-9-]+",
               "urgency comment and extra values contain no comma and do not end in whitespace; author/e-mail contain no line break",
               "change lines start with two blanks; text lines contain no line-break characters (splitlines set)"]
OUTSIDE = ["more than 2 blocks", "holes longer than 3 characters"]


def rng(c, ranges):
    o = ord(c)
    ok = False
    for lo, hi in ranges:
        ok = ok | ((lo <= o) & (o <= hi))
    return ok


LOWNUM = [(97, 122), (48, 57)]
PKG_REST = LOWNUM + [(43, 43), (45, 46)]
VER = [(48, 57), (97, 122), (65, 90), (43, 43), (45, 46), (58, 58), (126, 126)]
DIST = LOWNUM + [(43, 43), (45, 46)]
KEY = LOWNUM + [(45, 45)]
BOUNDARY = (10, 11, 12, 13, 28, 29, 30, 133, 0x2028, 0x2029)


def no_boundary(s):
    ok = True
    for ch in s:
        o = ord(ch)
        for b in BOUNDARY:
            ok = ok & (o != b)
    return ok


def valid(kind, s):
    if kind == "pkg":
        if len(s) == 0:
            return False
        ok = rng(s[0], LOWNUM)
        for c in s[1:]:
            ok = ok & rng(c, PKG_REST)
        return ok
    if kind in ("ver", "dist", "urg", "key"):
        if len(s) == 0:
            return False
        ok = True
        for c in s:
            ok = ok & rng(c, {"ver": VER, "dist": DIST, "urg": KEY, "key": KEY}[kind])
        return ok
    if kind in ("comment", "value"):
        # free text without comma/line break, not ending (value: nor starting) with whitespace
        ok = no_boundary(s)
        for c in s:
            ok = ok & (c != ",")
        if not ok:
            return False
        if len(s) == 0:
            return kind == "comment"
        if s != s.rstrip() or s.strip() == "":
            return False
        if kind == "value" and s != s.lstrip():
            return False
        return True
    if kind in ("text", "name", "email"):
        return no_boundary(s)
    return True


DATES = ["Thu, 12 Dec 2006 12:23:34 +0000", "1 Jan 2020 1:02:03 -0130", "Mon,  3 Feb 2014 09:00:00 +0100"]
DEFAULT = dict(pkg="foo", ver="1.0-1", dist="unstable", dist2="experimental", urg="low", comment=" (HIGH for x)",
               key="binary-only", value="yes", text="* A change: #1", name="A B", email="a@b.c")
KIND = dict(pkg="pkg", ver="ver", dist="dist", dist2="dist", urg="urg", comment="comment", key="key", value="value",
            text="text", name="name", email="email")

SHAPES = {
    # (ndists, comment?, extra?, body shape, date index, leading blanks, nblocks)
    "min": (1, False, False, "one", 0, 0, 1),
    "full": (2, True, True, "blanks", 0, 0, 1),
    "noweekday": (1, False, False, "two", 1, 0, 1),
    "leading": (1, True, False, "one", 2, 2, 1),
    "two": (1, False, True, "blanks", 0, 0, 2),
    "two-full": (2, True, True, "two", 1, 1, 2),
    # three extra key=value pairs, not in sorted order (round 3)
    "extras": (1, True, 3, "one", 0, 0, 1),
}
EXTRA_PAIRS = [("x-rebuild", "lib 2"), ("Closes", "1")]


def make(shape, v):
    nd, has_c, has_x, body, di, lead, nb = SHAPES[shape]
    lines = [""] * lead
    blocks = []
    for b in range(nb):
        if b == 0:
            pkg, ver = v["pkg"], v["ver"]
            dists = [v["dist"]] + ([v["dist2"]] if nd == 2 else [])
            urg = v["urg"]
            comment = (" " + v["comment"] if v["comment"] != "" and not v["comment"].startswith(" ") else v["comment"]) if has_c else ""
            other = [(v["key"], v["value"])] if has_x else []
            if has_x == 3:
                other = [EXTRA_PAIRS[0], (v["key"], v["value"]), EXTRA_PAIRS[1]]
            texts = {"one": ["  " + v["text"]], "two": ["  " + v["text"], "    continued"],
                     "blanks": ["", "  " + v["text"], "", "  [ Someone ]", "  * other # not a comment", ""]}[body]
            author = "%s <%s>" % (v["name"], v["email"])
            date = DATES[di]
        else:
            pkg, ver, dists, urg, comment, other = "foo", "0.9", ["stable"], "medium", "", []
            texts = ["", "  * Initial release.", ""]
            author, date = "C D <c@d.e>", DATES[0]
        head = "%s (%s) %s; urgency=%s%s" % (pkg, ver, " ".join(dists), urg, comment)
        for k, val in other:
            head += ", %s=%s" % (k, val)
        lines.append(head)
        lines += texts
        lines.append(" -- %s  %s" % (author, date))
        lines.append("")
        blocks.append(dict(package=pkg, version=ver, distributions=" ".join(dists), urgency=urg, urgency_comment=comment,
                           other=list(other), changes=texts, author=author, date=date))
    return lines, blocks


def h_roundtrip(params, h0: str, h1: str):
    shape, holes, lens = params["shape"], params["hole"], params["lens"]
    v = dict(DEFAULT)
    syms = [h0, h1]
    for i in range(2):
        if i < len(holes):
            assume(len(syms[i]) == lens[i])
            assume(valid(KIND[holes[i]], syms[i]))
            if holes[i] == "ver":
                sp = spec_parse(syms[i])
                assume(sp is not None and sp != "edge")
            if holes[i] == "key":
                for k, _ in EXTRA_PAIRS + [("urgency", "")]:
                    assume(syms[i].lower() != k.lower())
            v[holes[i]] = syms[i]
        else:
            assume(len(syms[i]) == 0)
    lines, blocks = make(shape, v)
    text = "\n".join(lines) + "\n"
    # the text is handed over as a list of lines (what a file object yields) unless the partition
    # asks for one str: only the line holding the symbolic component is symbolic then
    src = text if params.get("as_text") else [l + "\n" for l in lines]
    with warnings.catch_warnings(record=True) as log:
        warnings.simplefilter("always")
        try:
            c = Changelog(src, strict=True)
        except ChangelogParseError as e:
            require(False, "strict parsing rejects a well-formed changelog: %s" % e, text=text)
        require(len(log) == 0, "warning on a well-formed changelog", text=text, warning=str(log[0].message) if log else "")
    out = str(c)
    require(out == text, "str() does not reproduce the text", text=text, out=out)
    if params.get("reuse"):
        # the same object reads a second, different well-formed text (no state may leak)
        lines2, blocks2 = make("min", dict(DEFAULT))
        text2 = "\n".join(lines2) + "\n"
        c.parse_changelog([l + "\n" for l in lines2], strict=True)
        require(str(c) == text2, "a re-used Changelog object does not reproduce the second text", first=text, second=text2, out=str(c))
        c.parse_changelog(src, strict=True)
        require(str(c) == text, "a re-used Changelog object does not reproduce the first text again", text=text, out=str(c))
    got = list(c)
    require(len(got) == len(blocks), "block count", got=len(got), want=len(blocks))
    for g, w in zip(got, blocks):
        require(g.package == w["package"], "package", got=g.package, want=w["package"])
        require(str(g.version) == w["version"], "version", got=str(g.version), want=w["version"])
        require(g.distributions == w["distributions"], "distributions", got=g.distributions, want=w["distributions"])
        require(g.urgency == w["urgency"], "urgency", got=g.urgency, want=w["urgency"])
        require(g.urgency_comment == w["urgency_comment"], "urgency comment", got=g.urgency_comment, want=w["urgency_comment"])
        require(list(g.other_pairs.items()) == w["other"], "extra key/values", got=list(g.other_pairs.items()), want=w["other"])
        require(g.changes() == w["changes"], "change lines", got=g.changes(), want=w["changes"])
        require(g.author == w["author"], "author", got=g.author, want=w["author"])
        require(g.date == w["date"], "date", got=g.date, want=w["date"])


# ------------------------------------------------------------------ engine B
def lemma_lines(params):
    from .. import re2smt as R
    S = R.Session(timeout_ms=60000)
    cex, verdicts = [], []
    CL = 255
    try:
        top = R.match(cl.topline, clip=CL)
        end = R.full(cl.endline, clip=CL)
        end_nd = R.match(cl.endline_nodetails, clip=CL)
        chg = R.full(cl.changere, clip=CL)
        kv = R.full(cl.keyvalue, clip=CL)
        val = R.full(cl.value_re, clip=CL)
        blank = R.full(cl.blankline, clip=CL)
    except R.NotEncodable as e:
        S.counts["not_encodable"] += 1
        return {"engine": "B", "verdict": "inconclusive", "reason": "not encodable: %s" % e, "queries": S.counts, "counterexamples": []}
    low = R.ranges_re(LOWNUM)
    pkg = R.concat(low, R.star(R.ranges_re(PKG_REST)))
    ver = R.plus(R.ranges_re(VER))
    dist = R.plus(R.ranges_re(DIST))
    key = R.plus(R.ranges_re(KEY))
    free = R.ranges_re([(32, 43), (45, 126), (160, 255)])           # no comma, no control chars
    nonblank = R.ranges_re([(33, 43), (45, 126), (161, 255)])
    txt = R.ranges_re([(32, 126), (160, 255), (9, 9)])
    comment = R.opt(R.concat(R.lit(" "), R.star(free), nonblank))
    header = R.concat(pkg, R.lit(" ("), ver, R.lit(")"), R.plus(R.concat(R.lit(" "), dist)), R.lit("; urgency="), key, comment,
                      R.star(R.concat(R.lit(", "), key, R.lit("="), R.star(free), nonblank)))
    dig = R.chars("0123456789")
    word = R.plus(R.ranges_re([(65, 90), (97, 122)]))
    date = R.concat(R.opt(R.concat(word, R.lit(","), R.plus(R.lit(" ")))), dig, R.opt(dig), R.lit(" "), word, R.lit(" "), dig, dig, dig, dig,
                    R.lit(" "), dig, R.opt(dig), R.lit(":"), dig, dig, R.lit(":"), dig, dig, R.lit(" "), R.chars("+-"), dig, dig, dig, dig)
    trailer = R.concat(R.lit(" -- "), R.star(txt), R.lit(" <"), R.star(txt), R.lit(">  "), date)
    change = R.concat(R.lit("  "), R.star(txt))
    checks = [
        ("HEADER is matched by topline", "subset", header, top, ("header",)),
        ("TRAILER is matched by endline", "subset", trailer, end, ("trailer",)),
        ("CHANGE is matched by changere", "subset", change, chg, ("change",)),
        ("CHANGE is never a trailer", "disjoint", change, R.union(end, end_nd), ("change",)),
        ("KEY=VALUE is matched by keyvalue", "subset", R.concat(key, R.lit("="), R.star(free), nonblank), kv, ("kv",)),
        ("urgency value (+comment) is matched by value_re", "subset", R.concat(key, comment), val, ("urgval",)),
        ("HEADER is never a blank line", "disjoint", header, blank, ("header",)),
    ]
    for nm, kind, a, b, tag in checks:
        v, w = (S.subset(a, b, nm) if kind == "subset" else S.disjoint(a, b, nm))
        verdicts.append(v)
        if v == "fails":
            cex.append({"harness": "h_line", "params": {"kind": tag[0]}, "args": {"line": w}, "message": "lemma '%s' fails for %r" % (nm, w)})
    out = {"engine": "B", "counterexamples": cex, "samples": S.log, "queries": S.counts, "solver_s": round(S.solver_s, 3)}
    if cex:
        out.update(verdict="counterexample", reason=cex[0]["message"])
    elif all(v == "holds" for v in verdicts):
        out.update(verdict="confirmed", reason="%d lemmas unsat" % len(verdicts))
    else:
        out.update(verdict="inconclusive", reason=str(verdicts))
    return out


def h_line(params, line: str):
    """Replay of an engine-B witness: the line is spliced into a well-formed changelog."""
    kind = params["kind"]
    head = "foo (1.0) unstable; urgency=low"
    body = "  * x"
    trail = " -- A <a@b>  Thu, 12 Dec 2006 12:23:34 +0000"
    if kind == "header":
        head = line
    elif kind == "trailer":
        trail = line
    elif kind == "change":
        body = line
    elif kind == "kv":
        head = head + ", " + line
    elif kind == "urgval":
        head = "foo (1.0) unstable; urgency=" + line
    text = "\n".join([head, "", body, "", trail, ""]) + "\n"
    with warnings.catch_warnings(record=True) as log:
        warnings.simplefilter("always")
        try:
            c = Changelog(text, strict=True)
        except ChangelogParseError as e:
            require(False, "strict parsing rejects a well-formed changelog: %s" % e, text=text)
        require(len(log) == 0, "warning on a well-formed changelog", text=text)
    require(str(c) == text, "str() does not reproduce the text", text=text, out=str(c))


def partitions(tier, seed):
    P = [dict(name="lemma/line-grammar", kind="py", func="lemma_lines", params={}, budget=300, bounds="lines of any length, code points <= U+00FF")]
    q = tier == "quick"
    holes1 = ["pkg", "ver", "dist", "urg", "comment", "key", "value", "text", "name", "email", "dist2"]
    uses = {"min": {"pkg", "ver", "dist", "urg", "text", "name", "email"},
            "full": set(holes1), "noweekday": {"pkg", "ver", "dist", "urg", "text", "name", "email"},
            "leading": {"pkg", "ver", "dist", "urg", "comment", "text", "name", "email"},
            "two": {"pkg", "ver", "dist", "urg", "key", "value", "text", "name", "email"}, "two-full": set(holes1),
            "extras": {"key", "value", "urg", "comment"}}
    for shape in ("leading", "two-full"):
        P.append(dict(name="reuse/%s" % shape, harness="h_roundtrip", params=dict(shape=shape, hole=["text"], lens=[1], reuse=True),
                      budget=90 if q else 600, reach=[], bounds="template %s parsed, then a second text, then the first again with the same object" % shape))
    for shape in (("min", "full", "extras") if q else SHAPES):
        for h in holes1:
            if h not in uses[shape]:
                continue
            if q and shape == "min" and h not in ("pkg", "ver", "text"):
                continue
            if q and shape == "extras" and h not in ("key", "value"):
                continue
            for ln in ((1,) if q else (0, 1, 2, 3)):
                if ln == 0 and h not in ("comment", "text", "name", "email"):
                    continue
                if not q and ln == 1 and h in ("pkg", "text"):
                    P.append(dict(name="rt-text/%s/%s/len%d" % (shape, h, ln), harness="h_roundtrip",
                                  params=dict(shape=shape, hole=[h], lens=[ln], as_text=True), budget=900, reach=[],
                                  bounds="template %s given as ONE str, symbolic %s of %d chars" % (shape, h, ln)))
                P.append(dict(name="rt/%s/%s/len%d" % (shape, h, ln), harness="h_roundtrip", params=dict(shape=shape, hole=[h], lens=[ln]),
                              budget=90 if q else 500, reach=[], bounds="template %s, symbolic %s of %d chars" % (shape, h, ln)))
        if not q:
            for a, b in (("pkg", "ver"), ("dist", "urg"), ("comment", "value"), ("text", "name"), ("name", "email"), ("ver", "text")):
                if a in uses[shape] and b in uses[shape]:
                    for ln in (1, 2):
                        P.append(dict(name="rt/%s/%s+%s/len%d" % (shape, a, b, ln), harness="h_roundtrip",
                                      params=dict(shape=shape, hole=[a, b], lens=[ln, ln]), budget=700, reach=[],
                                      bounds="template %s, symbolic %s and %s of %d chars" % (shape, a, b, ln)))
    return P
