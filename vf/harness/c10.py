"""C10 -- structural edits of a preserved document only move or insert whole elements."""
from debian._deb822_repro import parse_deb822_file
from debian._deb822_repro.parsing import Deb822ParagraphElement

from ..hx import assume, require, reach, Skip
from ..oracles.docmodel import scan, as_items, split_lines

MANIFEST = dict(
    engines="A",
    technique="symbolic execution (CrossHair+z3) of the format-preserving parser's structural operations (order_first/last/before/after, sort_fields, indexed and unindexed set/delete, Deb822FileElement.insert/append) over a catalogue of documents with unique and duplicated field names: operation codes, paragraph, field, occurrence index and reference operands are symbolic integers; the dump is compared with a reference list model of whole field texts",
    text="Bounded model checking of operation histories: for 9 documents (duplicated names, comments attached to fields, free comments between paragraphs, with/without final newline) and every sequence of 1 (thorough: 2) operations with all operands, the dump equals the concatenation of the model's field texts (each field's name, value and attached comments byte-for-byte, up to a supplied final newline), occurrences of a duplicated field moved together keep their relative order, (name, i) denotes the i-th occurrence in document order, and an independent re-scan plus a fresh parse yield the model's paragraphs; inserted/appended paragraphs never merge with neighbours and leave every original line in place. Chains: 0-3 (thorough: 4) operations of one kind with free operands on the last paragraph followed by append; a document with four occurrences of one name.",
    note="Documents are concrete; operations and operands are symbolic indices (solver-driven enumeration of histories, every path runs the real code). References in order_before/order_after are unique or indexed fields (an unindexed duplicated reference is not defined by the statement). The placement of an inserted paragraph relative to free-floating comments is unspecified by the library and not checked beyond 'no line lost, paragraphs in model order'.",
)

FUNCTIONS = ["debian._deb822_repro.parsing.Deb822NoDuplicateFieldsParagraphElement.order_first",
             "debian._deb822_repro.parsing.Deb822NoDuplicateFieldsParagraphElement.order_last",
             "debian._deb822_repro.parsing.Deb822NoDuplicateFieldsParagraphElement.order_before",
             "debian._deb822_repro.parsing.Deb822NoDuplicateFieldsParagraphElement.order_after",
             "debian._deb822_repro.parsing.Deb822NoDuplicateFieldsParagraphElement.sort_fields",
             "debian._deb822_repro.parsing.Deb822DuplicateFieldsParagraphElement.order_first",
             "debian._deb822_repro.parsing.Deb822DuplicateFieldsParagraphElement.order_last",
             "debian._deb822_repro.parsing.Deb822DuplicateFieldsParagraphElement.order_before",
             "debian._deb822_repro.parsing.Deb822DuplicateFieldsParagraphElement.order_after",
             "debian._deb822_repro.parsing.Deb822DuplicateFieldsParagraphElement.sort_fields",
             "debian._deb822_repro.parsing.Deb822DuplicateFieldsParagraphElement._nodes_being_relocated",
             "debian._deb822_repro.parsing.Deb822DuplicateFieldsParagraphElement.set_kvpair_element",
             "debian._deb822_repro.parsing.Deb822DuplicateFieldsParagraphElement.remove_kvpair_element",
             "debian._deb822_repro.parsing.Deb822FileElement.insert", "debian._deb822_repro.parsing.Deb822FileElement.append"]
STUBS = []
ASSUMPTIONS = ["reference operands of order_before/order_after are unique names or indexed occurrences",
               "a missing newline at the very end of the document may be supplied"]
OUTSIDE = ["more than two operations", "documents with error tokens"]

DOCS = [
    ("A: 1\nB: 2\nC: 3\n", False),
    ("A: 1\nB: 2\nC: 3", False),                                   # no final newline
    ("A: 1\n# about b\nB: 2\nA: 3\n", True),                       # duplicated A
    ("A: 1\n# c\nB: 2\nA: 3", True),                               # duplicated, unterminated
    ("B: 1\nA: 2\nB: 3\nA: 4\n c\nC: 5\n", True),                  # two duplicated names, multi-line
    ("A: 1\nB: 2\n\n# free\n\nC: 3\nD: 4\n", False),               # two paragraphs, free comment
    ("A: 1\n\nB: 2", False),                                       # two paragraphs, unterminated
    ("# top\nZ: 1\n# y\nY: 2\n\n", False),                         # comments attached, trailing blank
    ("A: 1", False),
    ("Section: x\nSHA256: y\npackage: p\nSize: 1\nPackage: q\n", True),   # mixed case, duplicated with different spelling
    ("b: 1\nC: 2\nA: 3\nc-d: 4\n", False),                               # case-insensitive order differs from code-point order
    ("A: 1\nB:", False),                                                  # unterminated, last value empty
    ("A: 1\nB: 2\n\nC: x\nD: ", False),                                  # unterminated, last value blank
    ("A: 1\n\n# free 1\n\nB: 2\n\n# free 2\n\nC: 3\n", False),          # three paragraphs, two free comments
    ("A: 1\nB: 2\nA: 3\n# c\nA: 4\nC: 5\nA: 6\n", True),                    # four occurrences of one name (round 3)
]


class M:
    """Reference model: list of paragraphs; a paragraph is a list of [name, text, value]."""

    def __init__(self, text):
        self.lines, paras = scan(text)
        self.paras = [[[f.name, f.text, f.value] for f in p] for p in paras]
        self.text = text

    def occ(self, pi, name):
        return [i for i, f in enumerate(self.paras[pi]) if f[0].lower() == name.lower()]


def norm(s):
    return s if s.endswith("\n") or s == "" else s + "\n"


def para_text(fields):
    out = ""
    for i, f in enumerate(fields):
        t = f[1]
        out += t if t.endswith("\n") else t + "\n"
    return out


def key_of(name, idx):
    return name if idx is None else (name, idx)


NOPS = 11
OPN = ["order_first", "order_last", "order_before", "order_after", "sort_fields", "set", "set-indexed", "delete", "delete-indexed", "insert", "append"]


def do_op(params, doc, m, op, pi, fi, indexed, ri, para_idx):
    """Applies one operation to the library document and the model.  Returns a tag."""
    lib_paras = list(doc)
    if op in (9, 10):
        newp = Deb822ParagraphElement.new_empty_paragraph()
        newp["X-New"] = "y"
        newp["W"] = "z"
        rec = [["X-New", "X-New: y\n", "y"], ["W", "W: z\n", "z"]]
        if op == 9:
            assume(0 <= para_idx <= len(m.paras))
            doc.insert(para_idx, newp)
            m.paras.insert(para_idx, rec)
        else:
            assume(para_idx == 0)
            doc.append(newp)
            m.paras.append(rec)
        return "inserted"
    assume(para_idx == 0)
    assume(0 <= pi < len(m.paras))
    fields = m.paras[pi]
    p = lib_paras[pi]
    if op == 4:
        assume((fi == 0) & (ri == 0) & (not indexed))
        p.sort_fields()
        fields.sort(key=lambda f: f[0].lower())
        return "sorted"
    assume(0 <= fi < len(fields))
    name = fields[fi][0]
    occ = m.occ(pi, name)
    k = occ.index(fi)
    if not indexed:
        assume(k == 0)       # unindexed operations are addressed through the first occurrence
    key = key_of(name, k if indexed else None)
    moving = [fi] if indexed else occ
    if op in (0, 1):
        assume(ri == 0)
        (p.order_first if op == 0 else p.order_last)(key)
        moved = [fields[i] for i in moving]
        rest = [f for i, f in enumerate(fields) if i not in moving]
        m.paras[pi] = moved + rest if op == 0 else rest + moved
        return "moved"
    if op in (2, 3):
        assume(0 <= ri < len(fields))
        rname = fields[ri][0]
        rocc = m.occ(pi, rname)
        assume(ri not in moving)
        assume(rname.lower() != name.lower())
        rkey = key_of(rname, rocc.index(ri)) if len(rocc) > 1 else rname
        (p.order_before if op == 2 else p.order_after)(key, rkey)
        moved = [fields[i] for i in moving]
        ref = fields[ri]
        rest = [f for i, f in enumerate(fields) if i not in moving]
        j = [i for i, f in enumerate(rest) if f is ref][0]
        m.paras[pi] = rest[:j] + moved + rest[j:] if op == 2 else rest[:j + 1] + moved + rest[j + 1:]
        return "moved"
    assume(ri == 0)
    if op in (5, 6):
        if op == 6:
            assume(indexed)
        else:
            assume(not indexed)
        p[key] = "new"
        target = fields[moving[0]]
        # comments attached to the field are kept; the field line is regenerated
        comments = "".join(l for l in split_lines(target[1]) if l.startswith("#") and split_lines(target[1]).index(l) < len([x for x in split_lines(target[1]) if x.startswith("#")]))
        lines = split_lines(target[1])
        ncom = 0
        while ncom < len(lines) and lines[ncom].startswith("#"):
            ncom += 1
        newf = [target[0], "".join(lines[:ncom]) + "%s: new\n" % target[0], "new"]
        out = []
        for i, f in enumerate(fields):
            if i == moving[0]:
                out.append(newf)
            elif i in moving:
                continue
            else:
                out.append(f)
        m.paras[pi] = out
        return "set"
    if op in (7, 8):
        if op == 8:
            assume(indexed)
        else:
            assume(not indexed)
        assume(len(fields) > len(moving))          # keep the paragraph non-empty
        del p[key]
        m.paras[pi] = [f for i, f in enumerate(fields) if i not in moving]
        return "deleted"
    raise AssertionError(op)


def check(params, doc, m, tag, orig_text, structural):
    got = doc.dump()
    items = [[(f[0], f[2]) for f in p] for p in m.paras]
    if structural:
        # insert/append: no original line lost or reordered, paragraphs as in the model
        want_lines = split_lines(norm(orig_text))
        it = iter(split_lines(norm(got)))
        for l in want_lines:
            found = False
            for g in it:
                if g == l:
                    found = True
                    break
            require(found, "an original line was lost or reordered by insert/append", line=l, got=got)
    else:
        # exact text: separators untouched, paragraphs = concatenation of the model's field texts
        want = rebuild(m, orig_text)
        require(norm(got) == norm(want), "dump differs from the reference list model after " + tag, got=got, want=want)
    lines2, paras2 = scan(got)
    require(as_items(paras2) == items, "independent re-scan differs from the model after " + tag, got=as_items(paras2), want=items, text=got)
    doc2 = parse_deb822_file(split_lines(got), accept_files_with_duplicated_fields=True)
    lib = [[(k, p[(k, 0)] if False else None) for k in []] for p in doc2]
    got_items = []
    for p in doc2:
        seen = {}
        row = []
        for k in p.keys():
            i = seen.get(k.lower(), 0)
            seen[k.lower()] = i + 1
            row.append((str(k), p[(k, i)]))
        got_items.append(row)
    require(got_items == items, "fresh parse of the dump differs from the model after " + tag, got=got_items, want=items)
    # (name, i) denotes the i-th occurrence in document order -- on the edited object itself
    for p, fields in zip(list(doc), m.paras):
        seen = {}
        require([str(k) for k in p.keys()] == [f[0] for f in fields], "keys() order after " + tag, got=[str(k) for k in p.keys()], want=[f[0] for f in fields])
        for f in fields:
            i = seen.get(f[0].lower(), 0)
            seen[f[0].lower()] = i + 1
            require(p[(f[0], i)] == f[2], "(name, i) is not the i-th occurrence in document order after " + tag,
                    name=f[0], i=i, got=p[(f[0], i)], want=f[2], dump=got)


def rebuild(m, orig_text):
    """Original text with each paragraph's field region replaced by the model's field texts."""
    lines, paras = scan(orig_text)
    out = ""
    pos = 0
    for p, fields in zip(paras, m.paras):
        start, end = p[0].start, p[-1].end
        out += "".join(lines[pos:start])
        out += para_text(fields)
        pos = end
    tail = "".join(lines[pos:])
    return out + tail


def h_ops(params, o1: int, p1: int, f1: int, x1: bool, r1: int, q1: int, o2: int, p2: int, f2: int, x2: bool, r2: int, q2: int):
    text, dup = DOCS[params["doc"]]
    steps = params["steps"]
    assume(0 <= o1 < NOPS)
    if "ops" in params:
        assume(o1 in params["ops"])
    doc = parse_deb822_file(split_lines(text), accept_files_with_duplicated_fields=True)
    m = M(text)
    tag = do_op(params, doc, m, o1, p1, f1, x1, r1, q1)
    structural = o1 in (9, 10)
    check(params, doc, m, OPN[o1], text, structural)
    reach(params, tag)
    if steps >= 2:
        assume(0 <= o2 < NOPS)
        text1 = doc.dump()
        m2 = M(text1)
        require([[f[0] for f in p] for p in m2.paras] == [[f[0] for f in p] for p in m.paras], "model/scan mismatch")
        tag2 = do_op(params, doc, m2, o2, p2, f2, x2, r2, q2)
        check(params, doc, m2, OPN[o1] + " then " + OPN[o2], text1, o2 in (9, 10))
    else:
        assume((o2 == 0) & (p2 == 0) & (f2 == 0) & (not x2) & (r2 == 0) & (q2 == 0))


def h_chain(params, k: int, f1: int, x1: bool, r1: int, f2: int, x2: bool, r2: int, f3: int, x3: bool, r3: int, f4: int, x4: bool, r4: int):
    """k (0..4) operations of one kind on the last paragraph, then a paragraph is appended and a field of the
    appended paragraph is replaced: bookkeeping that drifts a little with every operation shows only after several."""
    text, dup = DOCS[params["doc"]]
    op = params["op"]
    assume(0 <= k <= params["kmax"])
    if "f1" in params:
        assume(f1 == params["f1"])
    doc = parse_deb822_file(split_lines(text), accept_files_with_duplicated_fields=True)
    steps = [(f1, x1, r1), (f2, x2, r2), (f3, x3, r3), (f4, x4, r4)]
    cur = text
    m = M(cur)
    pi = len(m.paras) - 1
    for i in range(4):
        f, x, r = steps[i]
        if i >= k:
            assume((f == 0) & (not x) & (r == 0))
            continue
        m = M(cur)
        do_op(params, doc, m, op, pi, f, x, r, 0)
        check(params, doc, m, "%d x %s" % (i + 1, OPN[op]), cur, False)
        cur = doc.dump()
    m = M(cur)
    do_op(params, doc, m, 10, 0, 0, False, 0, 0)
    check(params, doc, m, "%d x %s then append" % (k, OPN[op]), cur, True)
    if k >= 3:
        reach(params, "three-moves")


def partitions(tier, seed):
    P = []
    q = tier == "quick"
    for d, op, kmax in (((2, 2, 3), (0, 2, 3)) if q else
                        [(d, op, 4) for d in (0, 2, 3, 4, 9, 14) for op in (0, 1, 2, 3)]):
        for f1 in range(len(M(DOCS[d][0]).paras[-1])):
            P.append(dict(name="chain/doc%d/%s/first%d" % (d, OPN[op], f1), harness="h_chain", params=dict(doc=d, op=op, kmax=kmax, f1=f1), budget=100 if q else 2400,
                          reach=["three-moves"] if f1 == 0 else [],
                          bounds="document %d: 0..%d operations %s (the first one on field %d, all other operands free) on the last paragraph, then append" % (d, kmax, OPN[op], f1)))
    groups = [("abs", [0, 1]), ("rel", [2, 3]), ("sort", [4]), ("set", [5, 6]), ("del", [7, 8]), ("file", [9, 10])]
    for d in range(len(DOCS)):
        for g, ops in groups:
            P.append(dict(name="one/doc%d/%s" % (d, g), harness="h_ops", params=dict(doc=d, steps=1, ops=ops), budget=80 if q else 900, reach=[],
                          bounds="document %d, one operation of group %s with all operands" % (d, g)))
        if not q or d in (1, 3, 6):
            for g, ops in groups:
                if q and g not in ("abs", "rel", "file"):
                    continue
                P.append(dict(name="two/doc%d/%s-first" % (d, g), harness="h_ops", params=dict(doc=d, steps=2, ops=ops), budget=100 if q else 2400, reach=[],
                              bounds="document %d, two operations (first from group %s)" % (d, g)))
    return P
