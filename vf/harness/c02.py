"""C02 -- Deb822 paragraphs survive dump and re-parse, whatever the input form."""
from debian.deb822 import Changes, Deb822, Dsc

from ..hx import assume, require, reach, Skip

MANIFEST = dict(
    engines="AB",
    technique="symbolic execution (CrossHair+z3) of Deb822 parsing/dumping over paragraph templates with a symbolic field name, first-line value or continuation line, for each of the six input forms, with and without clearsign armor and interleaved comments; regex-to-SMT lemmas (unbounded line length) that Policy-shaped lines are classified by _single/_multi/_multidata as the parser needs",
    text="Engine A: for 1-2 paragraph templates with single-line, multi-line and empty-first-line values, one component symbolic (field name up to 2 chars from the Policy alphabet; first line or continuation line up to 2-3 chars from printable ASCII, tab and two non-ASCII letters), each input form (str, bytes, list of lines with/without newline, text and binary line iterator), plain or wrapped in PGP clearsign armor (also through Dsc/Changes), with or without '#' comment lines: the parsed items equal the template's (first line trimmed) and dump() re-parses to the same items. Engine B: NAME: VALUE lines are in full(_single), 'NAME:' in full(_multi), continuation lines in full(_multidata) and in neither of the others, never blank and never comments -- for lines of any length. Also: the end of a continuation line (blanks allowed) symbolic, with and without armor.",
    note="Trusted: CrossHair str/bytes/codec/regex models (repaired; counterexamples replayed on CPython), z3 regex theory. Outside: the chardet fallback of _AutoDecoder (invalid UTF-8 is outside the domain), apt_pkg, real gpgv.",
)

FUNCTIONS = ["debian.deb822.Deb822.__init__", "debian.deb822.Deb822.iter_paragraphs", "debian.deb822.Deb822._skip_useless_lines",
             "debian.deb822.Deb822.split_gpg_and_payload", "debian.deb822.Deb822._internal_parser", "debian.deb822._AutoDecoder.decode",
             "debian.deb822.Deb822._dump_format", "debian.deb822.Deb822.dump", "debian.deb822._gpg_multivalued.__init__"]
STUBS = ["line iterators stand for text/binary file objects (the classes only iterate their input)"]
ASSUMPTIONS = ["field names: printable ASCII without ':' and blanks, not starting with '#' or '-'",
               "value characters: U+0020..U+007E, tab, U+00E9, U+20AC; continuation lines start with a blank and contain non-blank text",
               "input is valid UTF-8"]
OUTSIDE = ["more than 2 paragraphs / 3 fields", "holes longer than 3 characters (engine A)"]


def valchar(c):
    o = ord(c)
    return ((32 <= o) & (o <= 126)) | (o == 9) | (o == 0xE9) | (o == 0x20AC)


def namechar(c):
    o = ord(c)
    return (33 <= o) & (o <= 126) & (o != 58)


def blank(c):
    return (c == " ") | (c == "\t")


TEMPLATES = {
    # list of paragraphs; each paragraph = list of (name, first_line, [continuation lines])
    "single": [[("Package", "foo", []), ("Version", "1.0-1", [])]],
    "multi": [[("Package", "foo", []), ("Description", "short", [" long line", " .", "\tmore"]), ("Tag", "x", [])]],
    "emptyfirst": [[("Source", "s", []), ("Binary", "", [" a b c", " d e f"])]],
    "two": [[("Package", "a", []), ("Depends", "b (>= 1), c", [])], [("Package", "b", []), ("Description", "x", [" y"])]],
}


def materialise(tpl, hole, sym):
    """Insert the symbolic component; returns (paragraphs, expected items per paragraph)."""
    paras = [list(p) for p in TEMPLATES[tpl]]
    p0 = paras[0]
    if hole == "name":
        n, f, c = p0[-1]
        p0[-1] = (sym, f, c)
    elif hole == "first":
        n, f, c = p0[-1]
        p0[-1] = (n, sym, c)
    elif hole == "cont":
        n, f, c = p0[-1]
        p0[-1] = (n, f, list(c) + [sym])
    elif hole == "conttail":           # the end of a continuation line (may be blanks)
        n, f, c = p0[-1]
        p0[-1] = (n, f, list(c) + [" y" + sym])
    elif hole == "first0":
        n, f, c = p0[0]
        p0[0] = (n, sym, c)
    return paras


def strip_ws(s):
    """Trim per the parser's notion of whitespace on the first line (Unicode \\s on the decoded line)."""
    return s.strip()


def expected(paras):
    out = []
    for p in paras:
        items = []
        for n, f, c in p:
            v = strip_ws(f)
            for l in c:
                v = v + "\n" + l
            items.append((n, v))
        out.append(items)
    return out


def render_lines(paras, comments):
    lines = []
    for i, p in enumerate(paras):
        if i:
            lines.append("")
        if comments:
            lines.append("# leading comment")
        for n, f, c in p:
            lines.append("%s: %s" % (n, f) if f != "" else "%s:" % n)
            for k, l in enumerate(c):
                if comments and k == 0:
                    lines.append("#comment inside a value")
                lines.append(l)
            if comments:
                lines.append("# between: fields")
    return lines


ARMOR_PRE = ["-----BEGIN PGP SIGNED MESSAGE-----", "Hash: SHA256", ""]
ARMOR_POST = ["", "-----BEGIN PGP SIGNATURE-----", "", "iQEzBAEBCAAdFiEE", "=abcd", "-----END PGP SIGNATURE-----"]
FORMS = ["str", "bytes", "lines-nl", "lines", "text-iter", "bin-iter"]


def to_form(lines, form):
    if form == "str":
        return "\n".join(lines) + "\n"
    if form == "bytes":
        return ("\n".join(lines) + "\n").encode("utf-8")
    if form == "lines-nl":
        return [l + "\n" for l in lines]
    if form == "lines":
        return list(lines)
    if form == "text-iter":
        return (l + "\n" for l in lines)
    return ((l + "\n").encode("utf-8") for l in lines)


def h_forms(params, sym: str):
    tpl, hole, form, armor, comments, cls_name = (params[k] for k in ("tpl", "hole", "form", "armor", "comments", "cls"))
    assume(len(sym) == params["len"])
    if hole == "name":
        assume(len(sym) >= 1)
        ok = namechar(sym[0]) & (sym[0] != "#") & (sym[0] != "-")
        for c in sym[1:]:
            ok = ok & namechar(c)
        assume(ok)
        # distinct from the other names of the paragraph (case-insensitively)
        for n, _, _ in TEMPLATES[tpl][0][:-1]:
            assume(sym.lower() != n.lower())
    else:
        ok = True
        for c in sym:
            ok = ok & valchar(c)
        assume(ok)
        if hole == "cont":
            assume(len(sym) >= 2)
            assume(blank(sym[0]))
            assume(sym.strip() != "")
    paras = materialise(tpl, hole, sym)
    want = expected(paras)
    lines = render_lines(paras, comments)
    if armor:
        lines = ARMOR_PRE + lines + ARMOR_POST
    cls = {"Deb822": Deb822, "Dsc": Dsc, "Changes": Changes}[cls_name]
    if len(paras) == 1:
        d = cls(to_form(lines, form))
        got = [list(d.items())]
        parsed = [d]
    else:
        parsed = list(cls.iter_paragraphs(to_form(lines, form)))
        got = [list(d.items()) for d in parsed]
    require(got == want, "parsed items differ from the template", form=form, armor=armor, comments=comments, got=got, want=want)
    also = list(Deb822.iter_paragraphs(to_form(lines, form))) if not armor or len(paras) == 1 else None
    if also is not None:
        require([list(d.items()) for d in also] == want, "iter_paragraphs differs from the constructor", form=form, got=[list(d.items()) for d in also])
    # dump and re-parse
    text = "\n".join(d.dump() for d in parsed)
    again = [list(d.items()) for d in Deb822.iter_paragraphs(text)]
    require(again == want, "dump() does not re-parse to the same items", text=text, got=again, want=want)
    text2 = "\n".join(d.dump() for d in Deb822.iter_paragraphs(text))
    require(text2 == text, "second dump differs", text=text, text2=text2)


# ------------------------------------------------------------------ engine B
def lemma_lines(params):
    from .. import re2smt as R
    S = R.Session(timeout_ms=60000)
    cex, verdicts = [], []
    try:
        single, multi, multidata = R.full(Deb822._single), R.full(Deb822._multi), R.full(Deb822._multidata)
    except R.NotEncodable as e:
        S.counts["not_encodable"] += 1
        return {"engine": "B", "verdict": "inconclusive", "reason": "not encodable: %s" % e, "queries": S.counts, "counterexamples": []}
    val = R.ranges_re([(32, 126), (9, 9), (0xE9, 0xE9), (0x20AC, 0x20AC)])
    nonblank = R.ranges_re([(33, 126), (0xE9, 0xE9), (0x20AC, 0x20AC)])
    name = R.concat(R.ranges_re([(33, 34), (36, 44), (46, 57), (59, 126)]), R.star(R.ranges_re([(33, 57), (59, 126)])))
    value1 = R.concat(R.star(val), nonblank, R.star(val))                  # a first line with some text
    cont = R.concat(R.chars(" \t"), R.star(val), nonblank, R.star(val))    # continuation line with non-blank text
    checks = [
        ("NAME: VALUE is a single-line field", "subset", R.concat(name, R.lit(": "), value1), single, "first"),
        ("NAME:VALUE (no blank) is a single-line field", "subset", R.concat(name, R.lit(":"), value1), single, "first"),
        ("NAME: is the start of a multi-line field", "subset", R.concat(name, R.lit(":"), R.star(R.chars(" \t"))), multi, "first"),
        ("continuation line is continuation data", "subset", cont, multidata, "cont"),
        ("continuation line is not a field line", "disjoint", cont, R.union(single, multi), "cont"),
        ("a field line is not continuation data... (informational)", "info", R.concat(name, R.lit(": "), value1), multidata, "first"),
    ]
    try:
        # bytes side: a continuation line is never taken for PGP armor or a paragraph separator
        gpg = R.match(Deb822._gpgre)
        blank_w = R.full(Deb822._blank_line_whitespace)
        ascii_val = R.ranges_re([(32, 126), (9, 9)])
        ascii_nonblank = R.ranges_re([(33, 126)])
        cont_b = R.concat(R.chars(" \t"), R.star(ascii_val), ascii_nonblank, R.star(ascii_val))
        checks.append(("continuation line is never a PGP armor line", "disjoint", cont_b, gpg, "cont"))
        checks.append(("continuation line with text is never a blank line", "disjoint", cont_b, blank_w, "cont"))
    except R.NotEncodable:
        S.counts["not_encodable"] += 1
    for nm, kind, a, b, where in checks:
        if kind == "info":
            continue
        v, w = (S.subset(a, b, nm) if kind == "subset" else S.disjoint(a, b, nm))
        verdicts.append(v)
        if v == "fails":
            if where == "cont":
                cex.append({"harness": "h_line", "params": {"where": "cont"}, "args": {"line": w}, "message": "lemma '%s' fails for %r" % (nm, w)})
            else:
                cex.append({"harness": "h_line", "params": {"where": "field"}, "args": {"line": w}, "message": "lemma '%s' fails for %r" % (nm, w)})
    out = {"engine": "B", "counterexamples": cex, "samples": S.log, "queries": S.counts, "solver_s": round(S.solver_s, 3)}
    if cex:
        out.update(verdict="counterexample", reason=cex[0]["message"])
    elif all(v == "holds" for v in verdicts):
        out.update(verdict="confirmed", reason="%d lemmas unsat" % len(verdicts))
    else:
        out.update(verdict="inconclusive", reason=str(verdicts))
    return out


def h_line(params, line: str):
    """Replay of an engine-B witness line inside a paragraph, through the property's own oracle."""
    if params["where"] == "cont":
        text = "A: 1\nK: v\n%s\nZ: 9\n" % line
        want = [("A", "1"), ("K", "v\n" + line), ("Z", "9")]
    else:
        i = line.index(":")
        name, rest = line[:i], line[i + 1:]
        text = "A: 1\n%s\nZ: 9\n" % line
        want = [("A", "1"), (name, rest.strip()), ("Z", "9")]
    for form in ("str", "bytes", "lines"):
        d = Deb822(to_form(text.split("\n")[:-1], form))
        require(list(d.items()) == want, "line is not parsed as the format defines", line=line, form=form, got=list(d.items()), want=want)
    again = Deb822(d.dump())
    require(list(again.items()) == want, "dump does not re-parse", line=line)


def partitions(tier, seed):
    P = [dict(name="lemma/line-classes", kind="py", func="lemma_lines", params={}, budget=200, bounds="lines of any length over the value alphabet")]
    q = tier == "quick"

    def add(tpl, hole, form, armor, comments, cls, ln):
        P.append(dict(name="forms/%s/%s/%s%s%s/%s/len%d" % (tpl, hole, form, "+armor" if armor else "", "+comments" if comments else "", cls, ln),
                      harness="h_forms", params=dict(tpl=tpl, hole=hole, form=form, armor=armor, comments=comments, cls=cls, len=ln),
                      budget=90 if q else 600, reach=[],
                      bounds="template %s, symbolic %s of %d chars, input form %s, armor=%s, comments=%s, class %s" % (tpl, hole, ln, form, armor, comments, cls)))
    if q:
        for i, form in enumerate(FORMS):
            add("single", ("first", "name")[i % 2], form, False, False, "Deb822", 1)
            add("multi", "cont", form, False, i % 2 == 0, "Deb822", 2)
        add("emptyfirst", "first0", "str", True, False, "Dsc", 1)
        add("single", "first", "bytes", True, True, "Changes", 1)
        add("two", "first", "lines", False, False, "Deb822", 1)
        add("two", "cont", "bin-iter", False, True, "Deb822", 2)
        add("multi", "first", "lines-nl", True, False, "Deb822", 2)
        add("emptyfirst", "cont", "str", False, False, "Deb822", 3)
        add("multi", "conttail", "str", True, False, "Deb822", 2)          # armor x end of a continuation line (round 3)
        add("emptyfirst", "conttail", "lines", True, True, "Dsc", 1)
        add("multi", "conttail", "bytes", False, False, "Deb822", 2)
    else:
        k = 0
        for tpl in TEMPLATES:
            for hole in ("name", "first", "cont", "conttail", "first0"):
                for form in FORMS:
                    for armor in (False, True):
                        if armor and (tpl == "two" or form in ("lines-nl", "text-iter")):
                            continue
                        if tpl == "two" and form not in ("str", "bytes", "lines"):
                            continue
                        if hole == "first0" and tpl not in ("single", "emptyfirst"):
                            continue
                        if hole == "name" and form in ("lines-nl", "text-iter", "bin-iter"):
                            continue
                        for comments in (False, True):
                            k += 1
                            if comments and (k % 2):
                                continue        # comments on every other combination
                            for ln in (1, 2, 3):
                                if hole == "conttail" and (ln == 3 or tpl == "single"):
                                    continue
                                if hole == "cont" and ln == 1:
                                    continue
                                if hole in ("name", "first0") and ln == 3:
                                    continue
                                if ln == 3 and form not in ("str", "bytes"):
                                    continue
                                add(tpl, hole, form, armor, comments, "Deb822" if not armor else ("Dsc", "Changes")[len(tpl) % 2], ln)
    return P
