"""C06 -- ar members are exact, isolated, file-like views of the archive."""
from debian import arfile
from debian.arfile import ArFile

from ..hx import assume, require, Skip
from ..stubs import PyFile

MANIFEST = dict(
    engines="A",
    technique="symbolic execution (CrossHair+z3) of ArFile/ArMember over archives with symbolic member bytes, symbolic position/operation/argument; one inductive step from any position plus 2-3 operation interleavings, compared with an in-memory file model",
    text="Bounded model checking of the real ArFile/ArMember code: for archives of 1-3 short-named members with sizes 0..3 and arbitrary (symbolic) bytes, listing is exact and every single operation (read, readline, readlines, seek, tell) from every position behaves like an in-memory file over the member's bytes; thorough adds two-step histories and 3-operation interleavings across two members for both open forms. 'confirmed' partitions are exhaustive over all solver-feasible paths within these bounds; partitions that time out are reported inconclusive.",
    note="Trusted: CrossHair's symbolic bytes/int models and z3; the PyFile stub (io.BytesIO contract, validated at selftest) for the file object and for open(); header metadata concrete per member slot; sizes > 3, long names, >3 operations outside the claim.",
)

FUNCTIONS = [
    "debian.arfile.ArFile.__collect_members", "debian.arfile.ArFile.getnames",
    "debian.arfile.ArFile.getmembers", "debian.arfile.ArFile.getmember",
    "debian.arfile.ArMember.from_file", "debian.arfile.ArMember.read",
    "debian.arfile.ArMember.readline", "debian.arfile.ArMember.readlines",
    "debian.arfile.ArMember.seek", "debian.arfile.ArMember.tell", "debian.arfile.ArMember.close",
]
STUBS = ["PyFile (vf/stubs.py) stands for the binary file object given to ArFile / returned by the "
         "module-global open(); contract = io.BytesIO semantics (validated at selftest)"]
ASSUMPTIONS = [
    "member names are short (<=15 bytes, no '/', no surrounding blanks): GNU/BSD long names are outside the property",
    "read(0) follows the library's documented default (read everything) and is not compared with BytesIO",
    "seek targets are non-negative (as the property states); readlines() is called without a size hint",
    "header fields mtime/owner/group/mode are concrete per partition; member sizes and all member bytes are symbolic",
]
OUTSIDE = ["member sizes above the partition bound", "more than 3 members", "histories longer than 3 operations"]

META = [  # (name, mtime, owner, group, mode) -- concrete per member slot
    ("debian-binary", 1700000000, 0, 0, b"100644"),
    ("b.txt", 999999999999, 123456, 654321, b"100755"),
    ("debian-binary", 0, 1000, 1000, b"644"),      # duplicate name: last one wins
]


def header(name, mtime, owner, group, mode, size):
    h = (name.encode() + b"/").ljust(16) + str(mtime).encode().ljust(12) + \
        str(owner).encode().ljust(6) + str(group).encode().ljust(6) + mode.ljust(8) + \
        str(size).encode().ljust(10) + b"`\n"
    assert len(h) == 60
    return h


def build(datas, sizes):
    raw = b"!<arch>\n"
    for i, d in enumerate(datas):
        raw = raw + header(*META[i], sizes[i]) + d
        if sizes[i] % 2:
            raw = raw + b"\n"
    return raw


def _sizes(params, datas):
    """Member sizes: concrete per partition, the bytes stay symbolic."""
    sizes = params["sizes"]
    for d, n in zip(datas, sizes):
        assume(len(d) == n)
    if params.get("alpha"):
        # line-structure alphabet: every byte is LF, CR or 'a' (small enough to stay exhaustive even
        # if an implementation realises the bytes, e.g. by calling a C-level splitter)
        ok = True
        for d in datas:
            for b in d:
                ok = ok & ((b == 10) | (b == 13) | (b == 97))
        assume(ok)
    return sizes


def _open(params, raw):
    if params.get("form") == "filename":
        arfile.open = lambda name, mode="rb": PyFile(raw)   # module-global shadowing builtins.open
        try:
            return ArFile(filename="x.ar")
        finally:
            pass
    return ArFile(fileobj=PyFile(raw))


def _cleanup():
    if "open" in arfile.__dict__:
        del arfile.open


def h_list(params, d0: bytes, d1: bytes, d2: bytes):
    """Listing: exactly the members present, in order, with recorded metadata; last name wins."""
    n = len(params["sizes"])
    datas = [d0, d1, d2][:n]
    sizes = _sizes(params, datas)
    raw = build(datas, sizes)
    try:
        a = _open(params, raw)
        names = a.getnames()
        require(names == [META[i][0] for i in range(n)], "getnames", got=names)
        ms = a.getmembers()
        require(len(ms) == n, "member count")
        for i, m in enumerate(ms):
            require(m.name == META[i][0] and m.mtime == META[i][1] and m.owner == META[i][2]
                    and m.group == META[i][3] and m.size == sizes[i], "metadata of member %d" % i)
            got = m.read()
            require(got == datas[i], "content of member %d" % i, got=got)
            require(m.tell() == sizes[i], "tell after full read")
        for i in range(n):
            last = max(j for j in range(n) if META[j][0] == META[i][0])
            require(a.getmember(META[i][0]) is ms[last], "getmember returns last of that name")
    finally:
        _cleanup()


OPS = ["read()", "read(n)", "readline()", "readline(n)", "readlines()", "seek0", "seek1", "seek2", "tell"]


def _apply(f, op, n):
    """Apply operation `op` with argument n to a file-like f; returns the observable result."""
    if op == 0:
        return f.read()
    if op == 1:
        return f.read(n)            # n > 0 (precondition)
    if op == 2:
        return f.readline()
    if op == 3:
        return f.readline(n)
    if op == 4:
        return f.readlines()
    if op == 5:
        f.seek(n, 0)
        return None
    if op == 6:
        f.seek(n, 1)
        return None
    if op == 7:
        f.seek(n, 2)
        return None
    return f.tell()


def _arg_ok(op, n, pos, size):
    """Domain of the property: non-negative targets; read(n) with n>0."""
    if op == 1:
        return n > 0
    if op == 3:
        return n >= 0
    if op == 5:
        return n >= 0
    if op == 6:
        return pos + n >= 0
    if op == 7:
        return size + n >= 0
    return True


def known_readline(params, op):
    return "readline-unclamped" in params.get("known", []) and op in (2, 3, 4)


def h_step(params, d0: bytes, d1: bytes, d2: bytes, pos: int, op: int, n: int, op2: int, n2: int):
    """Inductive step: from any position of any member, one (or two) operations behave like an
    in-memory file over exactly the member's bytes; other members are unaffected."""
    k = len(params["sizes"])
    datas = [d0, d1, d2][:k]
    sizes = _sizes(params, datas)
    t = params["target"]
    assume(0 <= pos <= sizes[t] + 2)
    nops = len(OPS)
    assume(0 <= op < nops)
    assume(-3 <= n <= 4)
    assume(_arg_ok(op, n, pos, sizes[t]))
    two = params.get("steps", 1) >= 2
    if two:
        assume(0 <= op2 < nops)
        assume(-3 <= n2 <= 4)
    else:
        assume(op2 == 0)
        assume(n2 == 0)
    raw = build(datas, sizes)
    try:
        a = _open(params, raw)
        ms = a.getmembers()
        m = ms[t]
        ref = PyFile(datas[t])
        m.seek(pos)
        ref.seek(pos)
        r1 = _apply(m, op, n)
        e1 = _apply(ref, op, n)
        if known_readline(params, op) and (r1 != e1 or m.tell() != ref.tell()):
            raise Skip("known finding class readline-unclamped")
        require(r1 == e1, "result of %s" % OPS[op], got=r1, want=e1)
        require(m.tell() == ref.tell(), "tell() after %s" % OPS[op], got=m.tell(), want=ref.tell())
        if two:
            assume(_arg_ok(op2, n2, ref.tell(), sizes[t]))
            r2 = _apply(m, op2, n2)
            e2 = _apply(ref, op2, n2)
            if known_readline(params, op2) and (r2 != e2 or m.tell() != ref.tell()):
                raise Skip("known finding class readline-unclamped")
            require(r2 == e2, "result of second op %s" % OPS[op2], got=r2, want=e2)
            require(m.tell() == ref.tell(), "tell() after second op", got=m.tell(), want=ref.tell())
        # whatever happened, the rest of the member (and the other members) read back exactly
        rest = m.read()
        erest = ref.read()
        require(rest == erest, "remaining bytes", got=rest, want=erest)
        for j in range(k):
            if j != t:
                ms[j].seek(0)
                require(ms[j].read() == datas[j], "other member %d disturbed" % j)
    finally:
        _cleanup()


def h_inter(params, d0: bytes, d1: bytes, p0: int, p1: int, opa: int, na: int, opb: int, nb: int, opc: int, nc: int):
    """Interleaving on two members sharing one file object (or re-opening by name)."""
    datas = [d0, d1]
    sizes = _sizes(params, datas)
    nops = len(OPS)
    assume(0 <= p0 <= sizes[0] + 1)
    assume(0 <= p1 <= sizes[1] + 1)
    for op, n in ((opa, na), (opb, nb), (opc, nc)):
        assume(0 <= op < nops)
        assume(-2 <= n <= 3)
    raw = build(datas, sizes)
    try:
        a = _open(params, raw)
        m0, m1 = a.getmembers()
        r0, r1 = PyFile(d0), PyFile(d1)
        m0.seek(p0); r0.seek(p0)
        m1.seek(p1); r1.seek(p1)
        for (m, r, s, op, n, tag) in ((m0, r0, sizes[0], opa, na, "a"), (m1, r1, sizes[1], opb, nb, "b"), (m0, r0, sizes[0], opc, nc, "c")):
            assume(_arg_ok(op, n, r.tell(), s))
            got = _apply(m, op, n)
            want = _apply(r, op, n)
            if known_readline(params, op) and (got != want or m.tell() != r.tell()):
                raise Skip("known finding class readline-unclamped")
            require(got == want, "interleaved op %s: %s" % (tag, OPS[op]), got=got, want=want)
            require(m.tell() == r.tell(), "tell after interleaved op %s" % tag, got=m.tell(), want=r.tell())
        require(m0.read() == r0.read(), "rest of member 0")
        require(m1.read() == r1.read(), "rest of member 1")
    finally:
        _cleanup()


def partitions(tier, seed):
    P = []
    if tier == "quick":
        size_sets = [[0, 0], [1, 2], [2, 1], [2, 3], [3, 0]]
        for s in size_sets:
            P.append(dict(name="list/%s" % s, harness="h_list", params=dict(sizes=s), budget=40,
                          bounds="2 members, sizes %s, symbolic bytes" % s))
        P.append(dict(name="list/3m", harness="h_list", params=dict(sizes=[1, 0, 2]), budget=40, bounds="3 members"))
        P.append(dict(name="list/3m-fn", harness="h_list", params=dict(sizes=[2, 1, 1], form="filename"), budget=40, bounds="3 members, filename form"))
        for s in [[0, 0], [1, 1], [2, 2], [3, 1], [2, 3]]:
            for t in (0, 1):
                P.append(dict(name="step/%s/t%d" % (s, t), harness="h_step",
                              params=dict(sizes=s, target=t, steps=1), budget=100,
                              bounds="sizes %s, member %d, any position, one op of %d kinds, n in -3..4" % (s, t, len(OPS))))
        for s, t in (([2, 1], 0), ([3, 2], 0), ([2, 3], 1)):
            P.append(dict(name="step-crlf/%s/t%d" % (s, t), harness="h_step", params=dict(sizes=s, target=t, steps=1, alpha=True), budget=100,
                          bounds="sizes %s, member %d, bytes over {LF, CR, 'a'}, one op" % (s, t)))
        P.append(dict(name="inter/[2,2]", harness="h_inter", params=dict(sizes=[2, 2]), budget=100, bounds="3 interleaved ops on 2 members"))
        P.append(dict(name="inter/[1,2]-fn", harness="h_inter", params=dict(sizes=[1, 2], form="filename"), budget=100, bounds="3 interleaved ops, filename form"))
    else:
        for a in range(4):
            for b in range(4):
                P.append(dict(name="list/[%d,%d]" % (a, b), harness="h_list", params=dict(sizes=[a, b]), budget=120, bounds="2 members"))
        for s in ([1, 0, 2], [3, 3, 3], [0, 1, 0], [2, 2, 1]):
            for form in ("fileobj", "filename"):
                P.append(dict(name="list/%s/%s" % (s, form), harness="h_list", params=dict(sizes=s, form=form), budget=120, bounds="3 members"))
        for a in range(4):
            for b in range(4):
                for t in (0, 1):
                    P.append(dict(name="step2/[%d,%d]/t%d" % (a, b, t), harness="h_step",
                                  params=dict(sizes=[a, b], target=t, steps=2), budget=600,
                                  bounds="two ops from any position"))
        for s in ([2, 2], [3, 3], [4, 1], [1, 4]):
            for t in (0, 1):
                P.append(dict(name="step2-crlf/%s/t%d" % (s, t), harness="h_step", params=dict(sizes=s, target=t, steps=2, alpha=True), budget=900,
                              bounds="sizes %s, bytes over {LF, CR, 'a'}, two ops" % s))
        for s in ([1, 3, 2], [2, 0, 3]):
            for t in (0, 1, 2):
                P.append(dict(name="step1-3m/%s/t%d" % (s, t), harness="h_step", params=dict(sizes=s, target=t, steps=1, form="filename"), budget=300, bounds="3 members filename form"))
        for s in ([0, 0], [1, 1], [2, 2], [3, 3], [1, 2], [3, 2]):
            for form in ("fileobj", "filename"):
                P.append(dict(name="inter/%s/%s" % (s, form), harness="h_inter", params=dict(sizes=s, form=form), budget=600, bounds="3 interleaved ops"))
    return P
