"""C11 -- list views of a field read the exact values and write back only what changed."""
from debian._deb822_repro import (LIST_COMMA_SEPARATED_INTERPRETATION, LIST_SPACE_SEPARATED_INTERPRETATION,
                                  parse_deb822_file)

from ..hx import assume, require, reach, Skip
from ..oracles.docmodel import scan, split_lines

MANIFEST = dict(
    engines="A",
    technique="symbolic execution (CrossHair+z3) of the list interpretations (whitespace_split_tokenizer, comma_split_tokenizer, Deb822ParsedTokenList append/remove/replace, ValueReference value/remove, _update_field) over a layout grammar: the separator layout, the operation, the operand index are symbolic integers and one word of the list is a symbolic string; reads are compared with an independent splitting oracle and writes with the edited list plus byte-identity of the neighbouring fields",
    text="Bounded model checking: for list fields of 1-3 words in every layout of a catalogue (single/double blanks, tab and space continuation lines, comment lines between lines, commas with/without blanks, comma at line end or line start, trailing separator, leading blank) inside a three-field paragraph, with one word symbolic (1-2 arbitrary non-separator characters): the view yields exactly the oracle's values; open-and-close leaves the document byte-identical; after append / remove / replace / reference assignment / reference removal (one operation, thorough: two) the field re-reads as exactly the edited list, the other fields are byte-identical, and the dump parses without error tokens. Comma lists also with values of several words, values spanning lines and comment lines inside a value; every operation also on a view from which nothing was read before the edit.",
    note="Layouts are concrete with one symbolic word; operation and operand are symbolic indices. Outside: the reformatting modes of formatter.py (only 'no reformatting' is in the property), the Uploaders interpretation, removing the last remaining value.",
)

FUNCTIONS = ["debian._deb822_repro.tokens.whitespace_split_tokenizer", "debian._deb822_repro.tokens.comma_split_tokenizer",
             "debian._deb822_repro.parsing.Deb822ParsedTokenList.append", "debian._deb822_repro.parsing.Deb822ParsedTokenList.remove",
             "debian._deb822_repro.parsing.Deb822ParsedTokenList._remove_node", "debian._deb822_repro.parsing.Deb822ParsedTokenList.replace",
             "debian._deb822_repro.parsing.Deb822ParsedTokenList._update_field", "debian._deb822_repro.parsing.ValueReference.remove",
             "debian._deb822_repro._util.len_check_iterator"]
STUBS = []
ASSUMPTIONS = ["words contain no whitespace, no comma and no '#' and no line-boundary characters; appended/replacement words likewise",
               "at least one value remains after a removal"]
OUTSIDE = ["sort()", "LIST_UPLOADERS_INTERPRETATION", "more than two edit operations"]

# separator layouts: %0 %1 %2 are the words
WS_LAYOUTS = ["%0", "%0 %1", "%0  %1 %2", " %0 %1", "%0\n %1", "%0\n\t%1\n %2", "%0\n# c\n %1", "%0 %1\n# c1\n# c2\n  %2", "%0 %1 ", "\n %0\n %1", "%0\t%1 \t%2", "\n# c1\n# c2\n %0\n# c3\n %1"]
CM_LAYOUTS = ["%0", "%0, %1", "%0,%1,%2", "%0 , %1", "%0,\n %1", "%0\n , %1", "%0,\n# c\n %1,\n %2", "%0, %1,", ", %0, %1", "%0,\n %1\n ,", "\n %0,\n %1", "%0\t, %1", "%0\t\t,\n %1\t,\n\t%2", "\n# c1\n# c2\n %0,\n# c3\n %1",
              # values of several words / several physical lines / with comment lines inside (round 3)
              "%0 (= 1),\n %1\n   (>= 1.2),\n %2", "%0,\n %1\n# c\n  d,\n %2", "%0\n# c1\n b (>= 1)\n# c2\n c, %1", "%0 ,\n %1\n c\n ,%2"]
BOUNDARY = (10, 11, 12, 13, 28, 29, 30, 133, 0x2028, 0x2029)


def word_ok(s):
    """Non-empty, no comma, no '#', no whitespace of any kind (str.split semantics)."""
    if len(s) == 0:
        return False
    ok = True
    for ch in s:
        o = ord(ch)
        ok = ok & (o != 44) & (o != 35)
    if not ok:
        return False
    parts = s.split()
    return len(parts) == 1 and parts[0] == s


def oracle_split(value_text, comma):
    lines = [l for l in value_text.split("\n") if not l.startswith("#")]
    if comma:
        out = []
        for part in "\n".join(lines).split(","):
            p = part.strip()
            if p:
                out.append(p)
        return out
    return " ".join(lines).split()


def build(layout, words):
    """Substitutes the placeholders %0 %1 %2 of the layout in ONE pass over the layout text (a word may itself
    be '%1': substituting the placeholders one after the other would then replace inside the inserted word)."""
    out, n, i = "", 0, 0
    while i < len(layout):
        if layout[i] == "%" and i + 1 < len(layout) and layout[i + 1] in "012":
            k = int(layout[i + 1])
            out = out + words[k]
            n = max(n, k + 1)
            i += 2
        else:
            out = out + layout[i]
            i += 1
    return out, n


def field_value_text(dump):
    lines, paras = scan(dump)
    require(len(paras) == 1 and [f.name for f in paras[0]] == ["Package", "Items", "Last"], "document structure changed",
            got=[[f.name for f in p] for p in paras])
    f = paras[0][1]
    first = f.lines[0]
    txt = first[first.index(":") + 1:]
    for l in f.lines[1:]:
        txt += l
    return txt.rstrip("\n")


def h_list_c(params, li: int, op: int, idx: int, op2: int, idx2: int):
    """Concrete words; layout, operations and operand indices symbolic (paths run concretely)."""
    _run(params, li, "w0rd", op, idx, "n3w", op2, idx2)


def h_list(params, li: int, w: str, op: int, idx: int, nw: str, op2: int, idx2: int):
    """One word of the list and the new word are symbolic strings."""
    assume(len(w) == params["wlen"])
    assume(word_ok(w))
    assume(len(nw) == params["nlen"])
    assume(word_ok(nw))
    _run(params, li, w, op, idx, nw, op2, idx2)


def _run(params, li, w, op, idx, nw, op2, idx2):
    comma = params["comma"]
    layouts = CM_LAYOUTS if comma else WS_LAYOUTS
    assume(0 <= li < len(layouts))
    if "layouts" in params:
        assume(params["layouts"][0] <= li < params["layouts"][1])
    if "op" in params:
        assume(op == params["op"])
    words = ["alpha", "b2", "c-c"]
    words[params["hole"]] = w
    layout = layouts[li]
    value, n = build(layout, words)
    assume(params["hole"] < n)
    words = words[:n]
    text = "Package: foo\nItems:%s%s\nLast: z\n" % ("" if value.startswith("\n") else " ", value)
    interp = LIST_COMMA_SEPARATED_INTERPRETATION if comma else LIST_SPACE_SEPARATED_INTERPRETATION
    doc = parse_deb822_file(split_lines(text))
    para = next(iter(doc))
    view = para.as_interpreted_dict_view(interp)
    want = oracle_split(value, comma)
    require(len(want) == n and [x.split()[0] for x in want] == words, "harness oracle self-check", want=want, words=words)
    if not params.get("fresh"):
        # (a fresh view -- nothing read before the first edit -- is a separate variant: reading fills caches)
        got = list(view["Items"])
        require(got == want, "list view values differ from the splitting oracle", text=text, got=got, want=want)
        with view["Items"] as lst:
            require(list(lst) == want, "values inside the context manager", got=list(lst))
        require(doc.dump() == text, "open and close without change modified the document", text=text, got=doc.dump())
    steps = params.get("steps", 1)
    cur = list(want)
    ops = [(op, idx, nw), (op2, idx2, "zz9")]
    for s in range(2):
        o, ix, new = ops[s]
        if s >= steps:
            assume((o == 0) & (ix == 0))
            continue
        assume(0 <= o < 5)
        reformat = params.get("reformat", False)
        if o == 0:
            assume(ix == 0)
            with view["Items"] as lst:
                if reformat:
                    lst.reformat_when_finished()
                lst.append(new)
            cur = cur + [new]
            reach(params, "append")
        else:
            assume(0 <= ix < len(cur))
            target = cur[ix]
            first = cur.index(target)
            if o == 1:
                assume(len(cur) > 1)
                with view["Items"] as lst:
                    if reformat:
                        lst.reformat_when_finished()
                    lst.remove(target)
                cur = cur[:first] + cur[first + 1:]
                reach(params, "remove")
            elif o == 2:
                with view["Items"] as lst:
                    if reformat:
                        lst.reformat_when_finished()
                    lst.replace(target, new)
                cur = cur[:first] + [new] + cur[first + 1:]
                reach(params, "replace")
            elif o == 3:
                with view["Items"] as lst:
                    refs = list(lst.iter_value_references())
                    if not params.get("fresh"):
                        require([r.value for r in refs] == cur, "value references", got=[r.value for r in refs], want=cur)
                    refs[ix].value = new
                cur = cur[:ix] + [new] + cur[ix + 1:]
                reach(params, "ref-set")
            else:
                assume(len(cur) > 1)
                with view["Items"] as lst:
                    refs = list(lst.iter_value_references())
                    refs[ix].remove()
                cur = cur[:ix] + cur[ix + 1:]
                reach(params, "ref-remove")
        dump = doc.dump()
        require(dump.startswith("Package: foo\nItems:") and dump.endswith("\nLast: z\n"), "neighbouring fields changed", dump=dump)
        vt = field_value_text(dump)
        require(oracle_split(vt, comma) == cur, "the field does not re-read as the edited list (oracle on the dumped text)",
                dump=dump, got=oracle_split(vt, comma), want=cur)
        doc2 = parse_deb822_file(split_lines(dump))          # raises if the dump contains error tokens
        v2 = next(iter(doc2)).as_interpreted_dict_view(interp)
        require(list(v2["Items"]) == cur, "a fresh parse does not read the edited list", dump=dump, got=list(v2["Items"]), want=cur)
        require(list(view["Items"]) == cur, "the live view does not read the edited list", got=list(view["Items"]), want=cur)


def partitions(tier, seed):
    P = []
    q = tier == "quick"
    for comma, nm, lays in ((False, "ws", WS_LAYOUTS), (True, "comma", CM_LAYOUTS)):
        # (a) concrete words: every layout x operation x operand index (x second operation)
        for lo in range(0, len(lays), 3):
            hi = min(len(lays), lo + 3)
            for hole in ((0,) if q else (0, 1, 2)):
                P.append(dict(name="%s/concrete/lay%d-%d/hole%d/one-op" % (nm, lo, hi, hole), harness="h_list_c",
                              params=dict(comma=comma, layouts=[lo, hi], hole=hole, concrete=True, steps=1), budget=80 if q else 900, reach=[],
                              bounds="%s-separated list, layouts %d..%d, all five edit operations and operand indices (concrete words)" % (nm, lo, hi - 1)))
        for lo in range(0, len(lays), 6):
            hi = min(len(lays), lo + 6)
            P.append(dict(name="%s/concrete/lay%d-%d/reformat" % (nm, lo, hi), harness="h_list_c",
                          params=dict(comma=comma, layouts=[lo, hi], hole=0, concrete=True, steps=1, reformat=True), budget=100 if q else 900, reach=[],
                          bounds="%s-separated list, layouts %d..%d, append/remove/replace with reformat_when_finished(): the field re-reads as the edited list, neighbours untouched, no error tokens" % (nm, lo, hi - 1)))
            P.append(dict(name="%s/concrete/lay%d-%d/fresh-view" % (nm, lo, hi), harness="h_list_c",
                          params=dict(comma=comma, layouts=[lo, hi], hole=0, concrete=True, steps=1, fresh=True), budget=100 if q else 900, reach=[],
                          bounds="%s-separated list, layouts %d..%d, every edit operation on a view from which nothing was read before the edit" % (nm, lo, hi - 1)))
            if not q:
                P.append(dict(name="%s/concrete/lay%d-%d/fresh-view-two-ops" % (nm, lo, hi), harness="h_list_c",
                              params=dict(comma=comma, layouts=[lo, hi], hole=0, concrete=True, steps=2, fresh=True), budget=1800, reach=[],
                              bounds="as fresh-view, every pair of edit operations"))
        for lo in range(0, len(lays), 6 if q else 2):
            hi = min(len(lays), lo + (2 if q else 2))
            P.append(dict(name="%s/concrete/lay%d-%d/two-ops" % (nm, lo, hi), harness="h_list_c",
                          params=dict(comma=comma, layouts=[lo, hi], hole=0, concrete=True, steps=2), budget=70 if q else 1800, reach=[],
                          bounds="layouts %d..%d, every pair of edit operations" % (lo, hi - 1)))
        # (b) one symbolic word (and symbolic new word), operation fixed per partition
        for lo in range(0, len(lays), 2):
            hi = min(len(lays), lo + 2)
            for op in range(5):
                if q and (lo // 2 + op) % 7:
                    continue
                for hole in ((0,) if q else (0, 1)):
                    for wlen, nlen in (((1, 1),) if q else ((1, 1), (2, 2))):
                        P.append(dict(name="%s/sym/lay%d-%d/op%d/hole%d/w%d-n%d" % (nm, lo, hi, op, hole, wlen, nlen), harness="h_list",
                                      params=dict(comma=comma, layouts=[lo, hi], hole=hole, wlen=wlen, nlen=nlen, steps=1, op=op),
                                      budget=60 if q else 600, reach=[],
                                      bounds="layouts %d..%d, operation %d, word %d symbolic (%d chars), new word symbolic (%d chars)" % (lo, hi - 1, op, hole, wlen, nlen)))
    return P
