"""C13 -- package relationship fields: format and parse are inverse."""
import warnings

from debian.deb822 import PkgRelation

from ..hx import assume, require, reach, Skip

MANIFEST = dict(
    engines="AB",
    technique="symbolic execution (CrossHair+z3) of PkgRelation.str -> parse_relations over relation structures from a shape catalogue with symbolic names, qualifiers, versions, architecture and profile names and operator index; regex-to-SMT inclusion of the language of formatted atoms in the live dependency regex",
    text="Engine A: for relation structures of 1-2 conjuncts x 1-2 alternatives with every combination of optional parts (architecture qualifier, version constraint with each of the five operators, 1-2 plain or negated architectures, 1-2 restriction groups of 1-2 terms), with one or two parts symbolic (up to 2-3 characters from the respective Policy alphabets), parse_relations(str(rels)) == rels without warning and str() of the parse is identical. Engine B: every formatted atom of ANY length over those alphabets is matched by the live __dep_RE. Counts: 0-6 restriction groups of 1-3 terms, 0-6 architectures, 1-2 (thorough: 4) alternatives and conjuncts as symbolic integers over catalogues (versions with 2- and 10-digit epochs).",
    note="Trusted: CrossHair's regex/str models with the groupdict repair (counterexamples replayed on CPython); z3 regex theory. Domain: names [a-z0-9][a-z0-9.+-]*, qualifiers [a-z0-9][a-z0-9-]*, versions [0-9a-zA-Z:+~.-]+, architecture names [a-z0-9-]+, profile names lower-case [a-z0-9.+-]+ (the parser lower-cases restriction formulas).",
)

FUNCTIONS = ["debian.deb822.PkgRelation.parse_relations", "debian.deb822.PkgRelation.str"]
STUBS = []
ASSUMPTIONS = ["component alphabets as in MANIFEST note; profile names are lower case"]
OUTSIDE = ["more than 2x2 atoms", "holes longer than 3 characters (engine A)", "Packages(...).relations on fixture files"]

OPS = ["<<", "<=", "=", ">=", ">>"]
AR = PkgRelation.ArchRestriction
BR = PkgRelation.BuildRestriction


def rng(c, ranges):
    o = ord(c)
    ok = False
    for lo, hi in ranges:
        ok = ok | ((lo <= o) & (o <= hi))
    return ok


LOWNUM = [(97, 122), (48, 57)]
NAME_REST = LOWNUM + [(46, 46), (43, 43), (45, 45)]
QUAL_REST = LOWNUM + [(45, 45)]
VER = [(48, 57), (97, 122), (65, 90), (58, 58), (45, 45), (43, 43), (126, 126), (46, 46)]
ARCH = LOWNUM + [(45, 45)]
PROF = LOWNUM + [(46, 46), (43, 43), (45, 45)]


def valid(kind, s):
    if len(s) == 0:
        return False
    ok = True
    if kind == "name":
        ok = rng(s[0], LOWNUM)
        for c in s[1:]:
            ok = ok & rng(c, NAME_REST)
    elif kind == "qual":
        ok = rng(s[0], LOWNUM)
        for c in s[1:]:
            ok = ok & rng(c, QUAL_REST)
    elif kind == "ver":
        for c in s:
            ok = ok & rng(c, VER)
    elif kind == "arch":
        for c in s:
            ok = ok & rng(c, ARCH)
    elif kind == "prof":
        for c in s:
            ok = ok & rng(c, PROF)
    return ok


def atom(name="pkg", qual=None, ver=None, archs=None, restr=None):
    return {"name": name, "archqual": qual, "version": ver, "arch": archs, "restrictions": restr}


def build(shape, v):
    """Relation structure for a shape code; v = dict of (possibly symbolic) component values."""
    a_full = atom(v["name"], v["qual"], (OPS[v["op"]], v["ver"]),
                  [AR(True, v["arch"]), AR(False, "h")],
                  [[BR(True, v["prof"]), BR(False, "n")], [BR(True, "c")]])
    if shape == "full":
        return [[a_full]]
    if shape == "name":
        return [[atom(v["name"])]]
    if shape == "qual":
        return [[atom(v["name"], v["qual"])]]
    if shape == "ver":
        return [[atom(v["name"], None, (OPS[v["op"]], v["ver"]))]]
    if shape == "qual+ver":
        return [[atom(v["name"], v["qual"], (OPS[v["op"]], v["ver"]))]]
    if shape == "arch1":
        return [[atom(v["name"], None, None, [AR(True, v["arch"])])]]
    if shape == "arch-neg2":
        return [[atom(v["name"], None, None, [AR(False, v["arch"]), AR(False, "j")])]]
    if shape == "ver+arch":
        return [[atom(v["name"], None, (OPS[v["op"]], v["ver"]), [AR(True, "k"), AR(True, v["arch"])])]]
    if shape == "restr1":
        return [[atom(v["name"], None, None, None, [[BR(True, v["prof"])]])]]
    if shape == "restr-neg":
        return [[atom(v["name"], None, None, None, [[BR(False, v["prof"]), BR(True, "t")]])]]
    if shape == "restr2x2":
        return [[atom(v["name"], None, None, None, [[BR(True, "a"), BR(False, v["prof"])], [BR(False, "b"), BR(True, "c")]])]]
    if shape == "ver+restr":
        return [[atom(v["name"], None, (OPS[v["op"]], v["ver"]), None, [[BR(True, v["prof"])]])]]
    if shape == "arch+restr":
        return [[atom(v["name"], None, None, [AR(True, v["arch"])], [[BR(False, v["prof"])]])]]
    if shape == "alt2":
        return [[atom(v["name"], None, (OPS[v["op"]], v["ver"])), atom("o", v["qual"])]]
    if shape == "conj2":
        return [[atom(v["name"])], [atom("z", None, (OPS[v["op"]], v["ver"]), [AR(True, v["arch"])])]]
    if shape == "arch-x3":
        return [[atom(v["name"], None, None, [AR(True, v["arch"])]), atom("o", None, None, [AR(False, "h"), AR(False, "k")])],
                [atom("z", None, (OPS[v["op"]], v["ver"]), [AR(True, "j")])]]
    if shape == "restr-x2":
        return [[atom(v["name"], None, None, None, [[BR(True, v["prof"])]])], [atom("z", None, None, [AR(True, v["arch"])], [[BR(False, "n")], [BR(True, "c")]])]]
    if shape == "2x2":
        return [[a_full, atom("b")], [atom("c", v["qual"]), atom(v["name"], None, None, None, [[BR(True, v["prof"])]])]]
    raise KeyError(shape)


SHAPES = ["name", "qual", "ver", "qual+ver", "arch1", "arch-neg2", "ver+arch", "restr1", "restr-neg", "restr2x2",
          "ver+restr", "arch+restr", "alt2", "conj2", "full", "2x2", "arch-x3", "restr-x2"]
KINDS = {"name": "name", "qual": "qual", "ver": "ver", "arch": "arch", "prof": "prof"}
USES = {
    "name": ["name"], "qual": ["name", "qual"], "ver": ["name", "ver"], "qual+ver": ["name", "qual", "ver"],
    "arch1": ["name", "arch"], "arch-neg2": ["name", "arch"], "ver+arch": ["name", "ver", "arch"],
    "restr1": ["name", "prof"], "restr-neg": ["name", "prof"], "restr2x2": ["name", "prof"],
    "ver+restr": ["name", "ver", "prof"], "arch+restr": ["name", "arch", "prof"], "alt2": ["name", "ver", "qual"],
    "conj2": ["name", "ver", "arch"], "full": ["name", "qual", "ver", "arch", "prof"], "2x2": ["name", "qual", "ver", "arch", "prof"],
    "arch-x3": ["name", "arch", "ver"], "restr-x2": ["name", "prof", "arch"],
}
DEFAULTS = dict(name="p", qual="q", ver="1", arch="i", prof="s")


def h_rel(params, h0: str, h1: str, op: int):
    shape, holes, lens = params["shape"], params["hole"], params["lens"]
    v = dict(DEFAULTS)
    syms = [h0, h1]
    for i in range(2):
        if i < len(holes):
            assume(len(syms[i]) == lens[i])
            assume(valid(KINDS[holes[i]], syms[i]))
            v[holes[i]] = syms[i]
        else:
            assume(len(syms[i]) == 0)
    if "ver" in USES[shape]:
        assume(0 <= op < len(OPS))
    else:
        assume(op == 0)
    v["op"] = op
    rels = build(shape, v)
    with warnings.catch_warnings(record=True) as log:
        warnings.simplefilter("always")
        s = PkgRelation.str(rels)
        back = PkgRelation.parse_relations(s)
        require(len(log) == 0, "warning emitted while parsing formatted relations", s=s, warning=str(log[0].message) if log else None)
    require(back == rels, "parse(str(rels)) differs", s=s, back=back, rels=rels)
    s2 = PkgRelation.str(back)
    require(s2 == s, "str(parse(str(rels))) differs", s=s, s2=s2)


ARCH_NAMES = ["amd64", "i386", "any-arm", "linux-any", "hurd-i386", "s390x", "riscv64"]
PROF_NAMES = ["stage1", "nocheck", "cross", "pkg.foo.bar", "nodoc", "noudeb", "stage2"]
VERSIONS = ["1", "10:1.0-1", "2147483648:1~rc1+b2", "0.0~git20240101120000.1-1.1", "1:2:3", "9:9"]


def h_counts(params, ng: int, nt: int, na: int, nalt: int, nconj: int, vi: int, op: int):
    """List lengths as symbolic variables: ng restriction groups of nt terms, na architectures, nalt alternatives,
    nconj conjuncts (0 = the optional part is absent); names from catalogues (paths run concretely)."""
    assume(0 <= ng <= params["max"] and 1 <= nt <= 3 and 0 <= na <= params["max"])
    assume(1 <= nalt <= params["maxalt"] and 1 <= nconj <= params["maxalt"])
    assume(0 <= vi <= len(VERSIONS) and 0 <= op < len(OPS))
    if vi == 0:
        assume(op == 0)
    if params.get("thin"):
        assume(nt == 1 + ng % 3)
        assume(vi == (ng + na) % (len(VERSIONS) + 1))
        assume((vi == 0) | (op == (vi + ng) % len(OPS)))
    restr = None
    if ng > 0:
        restr = []
        for g in range(ng):
            restr.append([BR((g + t) % 2 == 0, PROF_NAMES[(g + 2 * t) % len(PROF_NAMES)]) for t in range(nt)])
    archs = None if na == 0 else [AR(na % 2 == 0, ARCH_NAMES[i % len(ARCH_NAMES)]) for i in range(na)]
    ver = None if vi == 0 else (OPS[op], VERSIONS[vi - 1])
    rels = []
    for c in range(nconj):
        alts = []
        for a in range(nalt):
            if c == 0 and a == 0:
                alts.append(atom("pkg-a", None, ver, archs, restr))
            elif (c + a) % 2:
                alts.append(atom("lib%d%d" % (c, a), "any" if a else None, (OPS[(op + a) % len(OPS)], VERSIONS[(c + a) % len(VERSIONS)])))
            else:
                alts.append(atom("x%d-%d" % (c, a), None, None, [AR(True, ARCH_NAMES[c])], [[BR(False, PROF_NAMES[a])]]))
        rels.append(alts)
    with warnings.catch_warnings(record=True) as log:
        warnings.simplefilter("always")
        s = PkgRelation.str(rels)
        back = PkgRelation.parse_relations(s)
        require(len(log) == 0, "warning emitted while parsing formatted relations", s=s, warning=str(log[0].message) if log else None)
    require(back == rels, "parse(str(rels)) differs", s=s, back=back, rels=rels)
    require(PkgRelation.str(back) == s, "str(parse(str(rels))) differs", s=s)
    if ng >= 4:
        reach(params, "four-groups")


def lemma_atoms(params):
    from .. import re2smt as R
    S = R.Session(timeout_ms=60000)
    try:
        dep = R.match(PkgRelation._PkgRelation__dep_RE, clip=127)
    except R.NotEncodable as e:
        S.counts["not_encodable"] += 1
        return {"engine": "B", "verdict": "inconclusive", "reason": "not encodable: %s" % e, "queries": S.counts, "counterexamples": []}
    low = R.ranges_re(LOWNUM)
    name = R.concat(low, R.star(R.ranges_re(NAME_REST)))
    qual = R.concat(low, R.star(R.ranges_re(QUAL_REST)))
    ver = R.plus(R.ranges_re(VER))
    arch = R.concat(R.opt(R.lit("!")), R.plus(R.ranges_re(ARCH)))
    prof = R.concat(R.opt(R.lit("!")), R.plus(R.ranges_re(PROF)))
    oper = R.union(*[R.lit(o) for o in OPS])
    group = R.concat(R.lit("<"), prof, R.star(R.concat(R.lit(" "), prof)), R.lit(">"))
    formatted = R.concat(
        name, R.opt(R.concat(R.lit(":"), qual)),
        R.opt(R.concat(R.lit(" ("), oper, R.lit(" "), ver, R.lit(")"))),
        R.opt(R.concat(R.lit(" ["), arch, R.star(R.concat(R.lit(" "), arch)), R.lit("]"))),
        R.opt(R.concat(R.lit(" "), group, R.star(R.concat(R.lit(" "), group)))))
    v, w = S.subset(formatted, dep, "every formatted atom matches __dep_RE")
    cex = []
    if v == "fails":
        cex.append({"harness": "h_atom_text", "params": {}, "args": {"s": w}, "message": "formatted atom %r does not match the dependency regex" % w})
    S.nonempty(R.inter(formatted, dep), "formatted atoms intersect the regex")
    out = {"engine": "B", "counterexamples": cex, "samples": S.log, "queries": S.counts, "solver_s": round(S.solver_s, 3)}
    if cex:
        out.update(verdict="counterexample", reason=cex[0]["message"])
    elif v == "holds":
        out.update(verdict="confirmed", reason="inclusion unsat")
    else:
        out.update(verdict="inconclusive", reason=v)
    return out


def h_atom_text(params, s: str):
    """Replay of an engine-B witness: a formatted atom must parse without warning and re-format identically."""
    with warnings.catch_warnings(record=True) as log:
        warnings.simplefilter("always")
        back = PkgRelation.parse_relations(s)
        require(len(log) == 0, "formatted atom is not parsed (warning)", s=s)
    require(PkgRelation.str(back) == s, "atom does not re-format identically", s=s, got=PkgRelation.str(back))


def partitions(tier, seed):
    P = [dict(name="lemma/atoms", kind="py", func="lemma_atoms", params={}, budget=200, bounds="formatted atoms of any length")]
    q = tier == "quick"
    for shape in SHAPES:
        uses = USES[shape]
        holes = [(u,) for u in uses]
        if not q:
            holes += [(a, b) for i, a in enumerate(uses) for b in uses[i + 1:]]
        for h in holes:
            for ln in ((1, 2) if q else (1, 2, 3)):
                if q and (ln == 2 and (shape not in ("name", "qual", "arch1", "restr1") or h[0] == "ver")):
                    continue
                if q and shape in ("full", "2x2", "alt2", "conj2", "arch-x3", "restr-x2") and h[0] not in ("name",):
                    continue
                if len(h) == 2 and ln == 3:
                    continue
                P.append(dict(name="rel/%s/%s/len%d" % (shape, "+".join(h), ln), harness="h_rel",
                              params=dict(shape=shape, hole=list(h), lens=[ln] * len(h)), budget=60 if q else 450, reach=[],
                              bounds="shape %s; symbolic %s of %d chars; operator index symbolic where a version is present" % (shape, "+".join(h), ln)))
    for mx, ma in (((6, 2),) if q else ((6, 2), (8, 4))):
        P.append(dict(name="counts/max%d-alt%d" % (mx, ma), harness="h_counts", params=dict(max=mx, maxalt=ma, **({"thin": True} if (q or mx > 6) else {})), budget=100 if q else 1800,
                      reach=["four-groups"],
                      bounds="0..%d restriction groups of 1..3 terms, 0..%d architectures, 1..%d alternatives and conjuncts (all counts symbolic), version from a catalogue of %d (incl. epochs of 2 and 10 digits)%s" % (mx, mx, ma, len(VERSIONS), "; thinned: term count, version and operator are functions of the other counts" if (q or mx > 6) else "")))
    return P
