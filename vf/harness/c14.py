"""C14 -- Version objects accept exactly valid version strings and decompose losslessly."""
import ast
import inspect
import textwrap

from debian.debian_support import BaseVersion, Version

from ..hx import assume, require, Skip, reach

MANIFEST = dict(
    engines="AB",
    technique="regex-to-SMT language equivalence (z3 strings/regex, unbounded length) of the live re_valid_version against the Policy grammar, plus symbolic execution (CrossHair+z3) of construction, decomposition and component assignment with rollback on bounded strings",
    text="Engine B decides, for strings of any length over code points <= U+2FFFF, that the set accepted by Version() (the live regex plus the colon/epoch test re-read from the AST) equals the Policy 5.6.12 grammar; every witness is replayed through Version(). Engine A executes the real constructor, str(), the component getters and __setattr__ (rollback) symbolically for all strings up to 3-4 characters (any Unicode) and one or two assignments with symbolic values up to 2-3 characters or None. Long strings: catalogue prefixes (epochs 2^31-1, 2^31, 2^32, 2^64, ten zeros, 40-digit upstream) + a symbolic middle of 0-1 (thorough: 3) characters + catalogue suffixes; two consecutive assignments of long catalogue values (incl. values that bring their own epoch).",
    note="Trusted: z3's sequence/regex theory, CrossHair's str/regex models (repaired, validated at selftest). Assumed away: strings whose non-epoch part begins or ends with a hyphen ('-9', '1-'): the statement's grammar does not settle them (the library folds the hyphen into the upstream version, dpkg rejects them). Code points above U+2FFFF are outside engine B.",
)

FUNCTIONS = [
    "debian.debian_support.BaseVersion.__init__", "debian.debian_support.BaseVersion._set_full_version",
    "debian.debian_support.BaseVersion.__setattr__", "debian.debian_support.BaseVersion.__getattr__",
    "debian.debian_support.BaseVersion._update_full_version", "debian.debian_support.BaseVersion.__str__",
]
STUBS = []
ASSUMPTIONS = [
    "strings whose non-epoch part starts or ends with '-' are outside the domain (grammar ambiguous there)",
    "strings with an epoch and a ':' after the last '-' ('1:a-b:c') are outside the domain (revision alphabet has no colon; grammar ambiguous)",
    "engine B: code points <= U+2FFFF (z3 character sort)",
]
OUTSIDE = ["strings longer than the partition bound for decomposition/assignment (acceptance itself is unbounded via engine B)",
           "AptPkgVersion (python-apt not installed)"]

DIGITS = "0123456789"
UP = "ABCDEFGHIJKLMNOPQRSTUVWXYZabcdefghijklmnopqrstuvwxyz0123456789.+~-"
REV = "ABCDEFGHIJKLMNOPQRSTUVWXYZabcdefghijklmnopqrstuvwxyz0123456789+.~"


def kind(c):
    """Character class of c, one solver decision per class (no per-character enumeration)."""
    o = ord(c)
    if (48 <= o) & (o <= 57):
        return "d"
    if ((65 <= o) & (o <= 90)) | ((97 <= o) & (o <= 122)) | (o == 43) | (o == 46) | (o == 126):
        return "a"
    if o == 58:
        return ":"
    if o == 45:
        return "-"
    return "x"


def spec_parse(s):
    """Policy 5.6.12, written from the manual.  Returns (epoch, upstream, revision),
    None if invalid, or 'edge' for the strings assumed away (see ASSUMPTIONS)."""
    n = len(s)
    ks = "".join([kind(s[i]) for i in range(n)])      # concrete class string
    if "x" in ks:
        return None
    epoch = None
    start = 0
    if ":" in ks:
        i = ks.index(":")
        if i == 0 or ks[:i] != "d" * i:
            return None            # a colon without an epoch
        epoch = s[:i]
        start = i + 1
    rest = ks[start:]
    if rest == "":
        return None
    if rest[0] == "-" or rest[-1] == "-":
        return "edge"
    if "-" in rest:
        j = start + rest.rindex("-")
        if ":" in ks[j + 1:]:
            return "edge"          # 'E:a-b:c'
        return (epoch, s[start:j], s[j + 1:])
    return (epoch, s[start:], None)


def _attrs(v):
    return (v.full_version, v.epoch, v.upstream_version, v.debian_revision, v.debian_version)


def h_accept(params, s: str):
    """Version(s) succeeds iff s is valid; then str() and the components are exact."""
    if "len" in params:
        assume(len(s) == params["len"])
    sp = spec_parse(s)
    if sp == "edge":
        # acceptance of hyphen-edge strings is not settled by the statement (see ASSUMPTIONS);
        # but IF such a string is accepted, str() and recomposition must still be exact and a
        # no-op assignment must not change it
        try:
            v = Version(s)
        except ValueError:
            return
        require(str(v) == s, "str() differs", s=s, got=str(v))
        rc = ("" if v.epoch is None else v.epoch + ":") + v.upstream_version + \
             ("" if v.debian_revision is None else "-" + v.debian_revision)
        require(rc == s, "components of an accepted version do not recompose to it", s=s, got=rc,
                parts=(v.epoch, v.upstream_version, v.debian_revision))
        v.epoch = v.epoch
        require(str(v) == s, "re-assigning the epoch to itself changed the version", s=s, got=str(v))
        return
    try:
        v = Version(s)
    except ValueError:
        require(sp is None, "valid version string rejected", s=s)
        return
    require(sp is not None, "invalid version string accepted", s=s, parsed=_attrs(v)[1:4])
    require(str(v) == s, "str() differs", s=s, got=str(v))
    require((v.epoch, v.upstream_version, v.debian_revision) == sp, "decomposition", s=s,
            got=(v.epoch, v.upstream_version, v.debian_revision), want=sp)
    require(v.debian_version == v.debian_revision, "debian_version alias")
    re = ("" if v.epoch is None else v.epoch + ":") + v.upstream_version + \
         ("" if v.debian_revision is None else "-" + v.debian_revision)
    require(re == s, "components do not recompose", s=s, got=re)


# long components (digit-width boundaries of the epoch: 9/10 digits, 2**31, 2**32, 2**64; long upstream/revision)
LONG_PREFIX = ["2147483647:", "2147483648:", "4294967296:", "18446744073709551616:", "0000000000:", "999999999:", "20240131120000:2:",
               "1.0~git20240101120000+really", "1:" + "9" * 40, ""]
LONG_SUFFIX = ["", "-1", "-0ubuntu0.22.04.1~bpo11+1", "1.0", ".5-10:1"]


def h_accept_long(params, pi: int, si: int, x: str):
    """Acceptance/decomposition on long strings: catalogue prefix + symbolic middle + catalogue suffix."""
    assume(0 <= pi < len(LONG_PREFIX) and 0 <= si < len(LONG_SUFFIX))
    assume(len(x) == params["len"])
    if "pis" in params:
        assume(params["pis"][0] <= pi < params["pis"][1])
    s = LONG_PREFIX[pi] + x + LONG_SUFFIX[si]
    assume(len(s) > 0)
    h_accept({}, s)
    reach(params, "end")


def h_assign_long(params, pi: int, si: int, ai: int, vi: int):
    """Assignment of long catalogue values to a component of a long catalogue version."""
    assume(0 <= pi < len(LONG_PREFIX) and 0 <= si < len(LONG_SUFFIX) and 0 <= ai < 3 and 0 <= vi < len(LONG_VALUES))
    s = LONG_PREFIX[pi] + "7" + LONG_SUFFIX[si]
    sp = spec_parse(s)
    assume(sp is not None and sp != "edge")
    v = Version(s)
    _assign_once(v, ATTRS[ai], LONG_VALUES[vi])
    _assign_once(v, ATTRS[(ai + 1) % 3], LONG_VALUES[(vi + 3) % len(LONG_VALUES)])
    reach(params, "assigned")


LONG_VALUES = [None, "4294967296", "2147483648", "0", "2024:1.4-rc1", "1.4.1", "2:3.0", "0ubuntu1~22.04", "12345678901234567890", "x:1"]
ATTRS = ["epoch", "upstream_version", "debian_revision", "debian_version", "full_version"]


def _set(v, attr, val):
    # plain attribute assignment statements: the builtin setattr() makes CrossHair run
    # __setattr__ untraced, which realises (enumerates) the symbolic strings
    if attr == "epoch":
        v.epoch = val
    elif attr == "upstream_version":
        v.upstream_version = val
    elif attr == "debian_revision":
        v.debian_revision = val
    elif attr == "debian_version":
        v.debian_version = val
    else:
        v.full_version = val


def _assign_once(v, attr, val):
    """One assignment, checked against the reference; returns nothing."""
    before = _attrs(v)
    e, u, r = before[1], before[2], before[3]
    if attr == "full_version":
        want = None if val is None else val
        sp = spec_parse(str(val))
        assume(sp != "edge")
        ok = sp is not None
        comps = sp
    else:
        if attr == "epoch":
            e = val
        elif attr == "upstream_version":
            u = val
        else:
            r = val
        if u is None:
            ok, want, comps = False, None, None
        else:
            want = ("" if e is None else e + ":") + u + ("-" + r if r else "")
            sp = spec_parse(want)
            assume(sp != "edge")
            ok = sp is not None
            comps = sp
    try:
        _set(v, attr, val)
    except ValueError:
        require(not ok, "valid assignment rejected", attr=attr, val=val, before=before)
        require(_attrs(v) == before, "object changed by a rejected assignment", attr=attr, val=val,
                before=before, after=_attrs(v))
        return
    require(ok, "assignment producing an invalid version accepted", attr=attr, val=val, after=_attrs(v))
    if attr == "full_version":
        want = str(val)
    require(str(v) == want, "recomposed version", attr=attr, val=val, got=str(v), want=want)
    require((v.epoch, v.upstream_version, v.debian_revision) == comps, "components after assignment",
            got=(v.epoch, v.upstream_version, v.debian_revision), want=comps)


def h_assign(params, s: str, v1: str, a2: int, v2: str, n2: bool):
    """One or two component assignments from an arbitrary valid version.
    First assignment: attribute, value length (or None) fixed per partition; value symbolic."""
    assume(len(s) == params["len"])
    sp = spec_parse(s)
    assume(sp is not None and sp != "edge")
    none1 = params["vlen"] is None
    if none1:
        assume(len(v1) == 0)
    else:
        assume(len(v1) == params["vlen"])
    two = params.get("steps", 1) >= 2
    if two:
        assume(0 <= a2 < len(ATTRS))
        assume(len(v2) <= params["vlen2"])
    else:
        assume(a2 == 0 and len(v2) == 0 and not n2)
    try:
        v = Version(s)
    except ValueError:
        raise Skip("not accepted (acceptance is checked by h_accept)")
    _assign_once(v, params["attr"], None if none1 else v1)
    if two:
        _assign_once(v, ATTRS[a2], None if n2 else v2)


# ------------------------------------------------------------------ engine B
def _colon_test_shape_ok():
    """The acceptance lemma models `_set_full_version`; check its AST still has the modelled shape:
       m = re_valid_version.match(version); if not m: raise; if m.group('epoch') is None and ':' in m.group('upstream_version'): raise"""
    src = textwrap.dedent(inspect.getsource(BaseVersion._set_full_version))
    fn = ast.parse(src).body[0]
    body = [n for n in fn.body if not (isinstance(n, ast.Expr) and isinstance(n.value, ast.Constant))]
    try:
        a0 = body[0]
        assert isinstance(a0, ast.Assign) and ast.unparse(a0.value) == "self.re_valid_version.match(version)"
        mname = a0.targets[0].id
        i1 = body[1]
        assert isinstance(i1, ast.If) and ast.unparse(i1.test) == "not %s" % mname and isinstance(i1.body[0], ast.Raise)
        i2 = body[2]
        assert isinstance(i2, ast.If) and isinstance(i2.body[0], ast.Raise)
        t = ast.unparse(i2.test).replace('"', "'")
        assert t == "%s.group('epoch') is None and ':' in %s.group('upstream_version')" % (mname, mname), t
        for n in body[3:]:
            assert isinstance(n, ast.Assign), ast.dump(n)
        return True, ""
    except (AssertionError, IndexError, AttributeError) as e:
        return False, "unrecognised shape of _set_full_version: %s" % (e,)


def lemma_accept(params):
    from .. import re2smt as R
    import z3
    ok, why = _colon_test_shape_ok()
    S = R.Session(timeout_ms=params.get("timeout_ms", 60000))
    out = {"engine": "B", "counterexamples": [], "samples": []}
    if not ok:
        S.counts["not_encodable"] += 1
        out.update(verdict="inconclusive", reason=why, queries=S.counts)
        return out
    try:
        pat = BaseVersion.re_valid_version
        m_all = R.match(pat)
        m_epoch = R.match(pat, mandatory_groups=("epoch",))
    except R.NotEncodable as e:
        S.counts["not_encodable"] += 1
        out.update(verdict="inconclusive", reason="not encodable: %s" % e, queries=S.counts)
        return out
    nocolon = R.star(R.not_chars(":"))
    impl = R.inter(m_all, R.union(m_epoch, nocolon))
    dig, up, rev = R.chars(DIGITS), R.chars(UP), R.chars(REV)
    upc = R.chars(UP + ":")
    # spec: optional epoch; body over upstream chars (':' only with epoch)
    spec = R.union(R.plus(up), R.concat(R.plus(dig), R.lit(":"), R.plus(upc)))
    # assumed away: non-epoch part starting / ending with '-'.  The non-epoch part starts after the
    # first colon when the prefix is all digits.
    edge_noep = R.union(R.concat(R.lit("-"), R.SIGMA_STAR), R.concat(R.SIGMA_STAR, R.lit("-")))
    edge_ep = R.concat(R.plus(dig), R.lit(":"), R.union(R.concat(R.lit("-"), R.SIGMA_STAR), R.concat(R.SIGMA_STAR, R.lit("-"))))
    nohy = R.star(R.not_chars("-"))
    edge_colon = R.concat(R.plus(dig), R.lit(":"), R.SIGMA_STAR, R.lit("-"), nohy, R.lit(":"), nohy)
    edge = R.union(R.inter(nocolon, edge_noep), edge_ep, edge_colon)
    dom = R.comp(edge)
    cex = []
    verdicts = []
    for name, a, b in (("accepted => valid", R.inter(impl, dom), spec), ("valid => accepted", R.inter(spec, dom), impl)):
        v, w = S.subset(a, b, name)
        verdicts.append(v)
        if v == "fails":
            cex.append({"harness": "h_accept", "params": {}, "args": {"s": w}, "message": "lemma '%s' fails for %r" % (name, w)})
    v, w = S.nonempty(R.inter(impl, spec, dom), "impl and spec intersect")
    verdicts.append(v)
    out["samples"] = S.log
    out["counterexamples"] = cex
    out["queries"] = S.counts
    out["solver_s"] = round(S.solver_s, 3)
    if cex:
        out.update(verdict="counterexample", reason=cex[0]["message"])
    elif all(x == "holds" for x in verdicts):
        out.update(verdict="confirmed", reason="2 inclusions unsat, sanity sat")
    else:
        out.update(verdict="inconclusive", reason="solver answered unknown / sanity failed: %s" % verdicts)
    return out


def partitions(tier, seed):
    P = [dict(name="lemma/accept", kind="py", func="lemma_accept", params={}, budget=120,
              bounds="all strings of any length over U+0000..U+2FFFF")]
    maxlen = 4 if tier == "quick" else 6
    for n in range(0, maxlen + 1):
        P.append(dict(name="accept/len%d" % n, harness="h_accept", params=dict(len=n),
                      budget=60 if tier == "quick" else 900, bounds="all strings of length %d (any Unicode)" % n))
    if tier == "quick":
        lens, vlens, bud = (1, 2), (None, 0, 1, 2), 60
    else:
        lens, vlens, bud = (1, 2, 3, 4), (None, 0, 1, 2, 3), 900
    for attr in ATTRS:
        for n in lens:
            for vl in vlens:
                if tier != "quick" and n == 4 and vl == 3:
                    continue
                P.append(dict(name="assign1/%s/len%d/v%s" % (attr, n, vl), harness="h_assign",
                              params=dict(len=n, vlen=vl, attr=attr, steps=1), budget=bud,
                              bounds="any valid version of length %d; %s = %s" % (n, attr, "None" if vl is None else "any string of length %d" % vl)))
    for ln in ((0, 1) if tier == "quick" else (0, 1, 2, 3)):
        step = 5 if ln == 0 else (2 if tier == "quick" else 1)
        for lo in range(0, len(LONG_PREFIX), step):
            P.append(dict(name="accept-long/len%d/prefix%d-%d" % (ln, lo, lo + step), harness="h_accept_long", params=dict(len=ln, pis=[lo, lo + step]),
                          budget=90 if tier == "quick" else 900, reach=["end"],
                          bounds="catalogue prefixes %d..%d of %d (epochs around 2**31, 2**32, 2**64, 10 zeros, 40-digit upstream...) + %d arbitrary chars + %d catalogue suffixes" % (lo, lo + step - 1, len(LONG_PREFIX), ln, len(LONG_SUFFIX))))
    P.append(dict(name="assign-long", harness="h_assign_long", params={}, budget=90 if tier == "quick" else 900, reach=["assigned"],
                  bounds="two consecutive assignments of %d catalogue values (None, 2**31, 2**32, 20 digits, values containing ':' and '-') to epoch/upstream/revision of the long catalogue versions" % len(LONG_VALUES)))
    if tier == "quick":
        P.append(dict(name="assign1/upstream_version/len1/v3", harness="h_assign", params=dict(len=1, vlen=3, attr="upstream_version", steps=1), budget=60,
                      bounds="any valid version of length 1; upstream_version = any string of length 3 (e.g. 'd:x': the value brings its own epoch)"))
    if tier != "quick":
        for attr in ATTRS:
            for n in (1, 2):
                for vl in (None, 1, 2):
                    P.append(dict(name="assign2/%s/len%d/v%s" % (attr, n, vl), harness="h_assign",
                                  params=dict(len=n, vlen=vl, attr=attr, steps=2, vlen2=1), budget=900,
                                  bounds="two assignments; second: any attribute, value <= 1 char or None"))
    return P
