"""C03 -- version comparison agrees with dpkg and is a consistent total preorder."""
import random

from debian.debian_support import BaseVersion, NativeVersion, Version, version_compare

from ..hx import assume, require, Skip
from ..oracles import dpkg_cmp as D
from .c14 import spec_parse

MANIFEST = dict(
    engines="AC",
    technique="AST-to-SMT translation with state merging (pysym + z3 Int) of the current source of _compare/_version_cmp_part/_version_cmp_string/_order, proved equivalent to a translation of dpkg's verrevcmp for all strings up to length N with unwinding assertions; CrossHair symbolic execution of the operator glue; solver-generated equal pairs for the hash law",
    text="Engine C: one SMT query per length pair (|a|,|b| <= N; N=4 quick, 6 thorough) shows that the real comparison kernel, re-translated from /repo's source on every run, returns the same sign as dpkg's verrevcmp for every pair of strings over the version alphabet, never raises, is antisymmetric and (smaller bound) transitive; every loop unrolling is justified by a separately discharged unwinding assertion. The composition with epochs and absent revisions (_compare) is proved the same way for short components. Engine A executes Version.__lt__..__ge__, ==, != and version_compare symbolically on whole version strings (<= 2-3 chars each) against the dpkg reference. Hash agreement is checked on solver-generated pairs that compare equal but differ as strings (not a bounded for-all verdict: hash() is C). Long shapes: concrete prefixes of 9/10/14/19/20 digits with symbolic tails of up to 2 (thorough: 3) characters against the dpkg reference (engine A, kernel called directly); class-level {str:int} tables are read from the live class by engine C.",
    note="Trusted: z3 (Int/ite fragment), the pysym translator (validated on every run against concrete execution of the real functions on the repository's own comparison vectors and random pairs), the dpkg reference in vf/oracles/dpkg_cmp.py (written from lib/dpkg/version.c). Outside: lengths beyond N, AptPkgVersion, dpkg-invalid strings ('-', '1-', '-9').",
)

FUNCTIONS = [
    "debian.debian_support.NativeVersion._compare", "debian.debian_support.NativeVersion._order",
    "debian.debian_support.NativeVersion._version_cmp_string", "debian.debian_support.NativeVersion._version_cmp_part",
    "debian.debian_support.BaseVersion.__lt__", "debian.debian_support.BaseVersion.__le__",
    "debian.debian_support.BaseVersion.__eq__", "debian.debian_support.BaseVersion.__ne__",
    "debian.debian_support.BaseVersion.__ge__", "debian.debian_support.BaseVersion.__gt__",
    "debian.debian_support.BaseVersion.__hash__", "debian.debian_support.version_compare",
]
STUBS = []
ASSUMPTIONS = [
    "valid version strings only (dpkg-valid: non-empty upstream, non-empty revision after a hyphen)",
    "engine C: component lengths up to the stated N; characters from the Policy alphabet (plus ':' in upstream)",
    "hash law: solver-generated pairs, replayed concretely (hash() is not encodable)",
]
OUTSIDE = ["component lengths above N", "AptPkgVersion (python-apt absent)"]

UP_RANGES = [(43, 43), (45, 46), (48, 58), (65, 90), (97, 122), (126, 126)]      # A-Za-z0-9.+~-:
REV_RANGES = [(43, 43), (46, 46), (48, 57), (65, 90), (97, 122), (126, 126)]     # A-Za-z0-9+.~


def ref_compare(a, b):
    """dpkg's answer for two valid version strings (plain Python; used for replay and engine A)."""
    pa, pb = spec_parse(a), spec_parse(b)
    return D.sign(D.dpkg_compare(pa[0], pa[1], pa[2], pb[0], pb[1], pb[2]))


def _check_pair(a, b):
    want = ref_compare(a, b)
    va, vb = Version(a), Version(b)
    got = version_compare(a, b)
    require(got == want, "version_compare differs from dpkg", a=a, b=b, got=got, want=want)
    require((va < vb) == (want < 0), "__lt__", a=a, b=b)
    require((va <= vb) == (want <= 0), "__le__", a=a, b=b)
    require((va == vb) == (want == 0), "__eq__", a=a, b=b)
    require((va != vb) == (want != 0), "__ne__", a=a, b=b)
    require((va >= vb) == (want >= 0), "__ge__", a=a, b=b)
    require((va > vb) == (want > 0), "__gt__", a=a, b=b)
    require((va == b) == (want == 0), "__eq__ with a str operand", a=a, b=b)
    require(version_compare(b, a) == -want, "antisymmetry", a=a, b=b)
    return want


def h_cmp(params, a: str, b: str):
    """Replay harness for engine-C witnesses and engine-A glue: operators vs dpkg on concrete/symbolic strings."""
    if "la" in params:
        assume(len(a) == params["la"])
        assume(len(b) == params["lb"])
    pa, pb = spec_parse(a), spec_parse(b)
    assume(pa is not None and pa != "edge" and pb is not None and pb != "edge")
    _check_pair(a, b)
    va = Version(a)
    require(va > None and not (va == None), "comparison with None")   # noqa: E711


def h_glue(params, a: str, b: str):
    """Operator plumbing on whole version strings, without the (path-hungry) dpkg reference:
    exactly one of <, ==, > holds, the derived operators agree, version_compare returns that sign
    and is antisymmetric."""
    assume(len(a) == params["la"])
    assume(len(b) == params["lb"])
    pa, pb = spec_parse(a), spec_parse(b)
    assume(pa is not None and pa != "edge" and pb is not None and pb != "edge")
    va, vb = Version(a), Version(b)
    lt, eq, gt = va < vb, va == vb, va > vb
    require(lt + eq + gt == 1, "not exactly one of <, ==, >", a=a, b=b, lt=lt, eq=eq, gt=gt)
    require((va <= vb) == (lt or eq) and (va >= vb) == (gt or eq) and (va != vb) == (not eq),
            "derived operators disagree", a=a, b=b)
    c = version_compare(a, b)
    require(c == (1 if gt else (-1 if lt else 0)), "version_compare vs operators", a=a, b=b, c=c)
    require(version_compare(b, a) == -c, "antisymmetry", a=a, b=b)
    require((vb < va) == gt and (vb > va) == lt and (vb == va) == eq, "mirrored operators", a=a, b=b)
    if eq:
        require(hash(va) == hash(vb), "equal versions with different hashes", a=a, b=b)


def h_part(params, x: str, y: str):
    """Replay of an engine-C kernel witness through the public API: the parts are embedded as the
    upstream version of '1:<part>-1' (an epoch admits ':' in upstream, the fixed revision makes the
    decomposition unambiguous)."""
    assume(len(x) > 0 and len(y) > 0)
    a, b = "1:" + x + "-1", "1:" + y + "-1"
    try:
        va, vb = Version(a), Version(b)
    except ValueError:
        raise Skip("part not embeddable")
    assume(va.upstream_version == x and vb.upstream_version == y)
    want = D.sign(D.verrevcmp(x, y))
    got = version_compare(a, b)
    require(got == want, "version_compare differs from dpkg", a=a, b=b, got=got, want=want)
    require((va < vb) == (want < 0) and (va == vb) == (want == 0) and (va > vb) == (want > 0),
            "operators inconsistent with dpkg", a=a, b=b, want=want)
    require(version_compare(b, a) == -want, "antisymmetry", a=a, b=b)


def h_part_sym(params, x: str, y: str):
    """Engine-A counterpart of the kernel lemma (works on any implementation, also one that engine C
    cannot encode): symbolic parts over the version alphabet, embedded as upstream versions."""
    assume(len(x) == params["la"])
    assume(len(y) == params["lb"])
    ok = True
    for ch in x + y:
        o = ord(ch)
        ok = ok & (((48 <= o) & (o <= 57)) | ((65 <= o) & (o <= 90)) | ((97 <= o) & (o <= 122)) | (o == 43) | (o == 46) | (o == 126))
    assume(ok)
    if "pa" in params:
        # concrete prefixes (long digit runs: digit-width boundaries) + symbolic tails, kernel called directly:
        # whole-version parsing of 20-character symbolic strings costs more than the comparison itself
        px, py = params["pa"] + x, params["pb"] + y
        want = D.sign(D.verrevcmp(px, py))
        got = D.sign(NativeVersion._version_cmp_part(px, py))
        require(got == want, "_version_cmp_part differs from dpkg", a="1:" + px + "-1", b="1:" + py + "-1", got=got, want=want)
        require(D.sign(NativeVersion._version_cmp_part(py, px)) == -want, "antisymmetry", a=px, b=py)
        return
    h_part(params, x, y)


def h_hash(params, a: str, b: str):
    pa, pb = spec_parse(a), spec_parse(b)
    assume(pa is not None and pa != "edge" and pb is not None and pb != "edge")
    if ref_compare(a, b) == 0:
        require(Version(a) == Version(b), "equal per dpkg but == is False", a=a, b=b)
        require(hash(Version(a)) == hash(Version(b)), "equal versions with different hashes", a=a, b=b)


def h_trans(params, a: str, b: str, c: str):
    for x in (a, b, c):
        try:
            Version(x)
        except ValueError:
            raise Skip("invalid")
    ab, bc, ac = version_compare(a, b), version_compare(b, c), version_compare(a, c)
    if ab <= 0 and bc <= 0:
        require(ac <= 0, "transitivity", a=a, b=b, c=c)
        if ab < 0 or bc < 0:
            require(ac < 0, "strict transitivity", a=a, b=b, c=c)


# ------------------------------------------------------------------ engine C
def _fixed(P, z3, name, n, prefix=""):
    """A string of |prefix| concrete characters followed by n symbolic ones."""
    return P.SStr(len(prefix) + n, [ord(c) for c in prefix] + [z3.Int("%s_%d" % (name, i)) for i in range(n)])


def _sgn(z3, x):
    from .. import pysym as P
    x = P.I(x)
    return z3.If(x > 0, 1, z3.If(x < 0, -1, 0))


def _mkversion(e, u, r):
    return ("" if e is None else e + ":") + u + ("" if r is None else "-" + r)


class _Q:
    """Query bookkeeping shared by the engine-C lemmas."""

    def __init__(self, params):
        import z3
        self.z3 = z3
        self.s = z3.Solver()
        self.s.set("timeout", int(params.get("timeout_ms", 900000)))
        self.counts = {"unsat": 0, "sat": 0, "unknown": 0, "not_encodable": 0}
        self.cex = []
        self.samples = []
        self.unwinding = []
        self.verdicts = []
        import time
        self.t0 = time.monotonic()
        self.solver_s = 0.0

    def check(self, *extra):
        import time
        self.s.push()
        self.s.add(*extra)
        t = time.monotonic()
        r = str(self.s.check())
        self.solver_s += time.monotonic() - t
        self.counts[r if r in self.counts else "unknown"] += 1
        m = self.s.model() if r == "sat" else None
        self.s.pop()
        return r, m

    def obligations(self, interps):
        ok = True
        for it in interps:
            for desc, o in it.obligations:
                r, _ = self.check(o)
                self.unwinding.append({"obligation": desc, "result": r})
                if r != "unsat":
                    ok = False
        return ok

    def result(self, engine="C"):
        out = {"engine": engine, "counterexamples": self.cex, "samples": self.samples[:6], "queries": self.counts,
               "solver_s": round(self.solver_s, 2), "unwinding": self.unwinding[:40]}
        if self.cex:
            out.update(verdict="counterexample", reason=self.cex[0]["message"])
        elif all(v == "ok" for v in self.verdicts) and self.verdicts:
            out.update(verdict="confirmed", reason="all %d queries decided as required" % len(self.verdicts))
        else:
            out.update(verdict="inconclusive", reason="; ".join(v for v in self.verdicts if v != "ok")[:300] or "nothing decided")
        return out


def _validate_translation(P, z3, fn_term, strs, real, samples):
    """Translator self-check: the term evaluated on concrete inputs equals the real function."""
    for vals in samples:
        pairs = []
        for s, v in zip(strs, vals):
            for i, c in enumerate(s.ch):
                if P.is_sym(c):
                    pairs.append((c, z3.IntVal(ord(v[i]))))
        got = z3.simplify(z3.substitute(P.I(fn_term), *pairs)) if pairs else z3.simplify(P.I(fn_term))
        want = real(*vals)
        if not z3.is_int_value(got) or D.sign(got.as_long()) != D.sign(want):
            return "translation disagrees with the real function on %r: term=%s real=%s" % (vals, got, want)
    return None


def _rand_part(rnd, n, ranges):
    pool = "".join(chr(c) for lo, hi in ranges for c in range(lo, hi + 1))
    pool = pool + "0011~~..++--"
    return "".join(rnd.choice(pool) for _ in range(n))


def lemma_kernel(params):
    """_version_cmp_part(a, b) has the sign of dpkg's verrevcmp(a, b) for all |a|=la, |b|=lb."""
    import z3
    from .. import pysym as P
    la, lb = params["la"], params["lb"]
    pa, pb = params.get("pa", ""), params.get("pb", "")
    q = _Q(params)
    try:
        a, b = _fixed(P, z3, "a", la, pa), _fixed(P, z3, "b", lb, pb)
        cons = P.alphabet(a, UP_RANGES) + P.alphabet(b, UP_RANGES)
        N = max(la + len(pa), lb + len(pb))
        it = P.Interp(NativeVersion, N + 1)
        impl = it.call(NativeVersion._version_cmp_part, [P.PyRef(NativeVersion), a, b])
        it2 = P.Interp(NativeVersion, N + 1)
        impl_ba = it2.call(NativeVersion._version_cmp_part, [P.PyRef(NativeVersion), b, a])
        sp = P.Interp(None, N + 1)
        spec = sp.call(D.verrevcmp, [a, b])
    except P.NotEncodable as e:
        q.counts["not_encodable"] += 1
        out = q.result()
        out.update(verdict="inconclusive", reason="not encodable: %s" % e)
        return out
    q.functions = it.functions_seen
    rnd = random.Random(params.get("seed", 0) * 1000 + la * 10 + lb)
    samples = [(pa + _rand_part(rnd, la, UP_RANGES), pb + _rand_part(rnd, lb, UP_RANGES)) for _ in range(25)]
    bad = _validate_translation(P, z3, impl, [a, b], lambda x, y: NativeVersion._version_cmp_part(x, y), samples) or \
        _validate_translation(P, z3, spec, [a, b], D.verrevcmp, samples)
    if bad:
        q.verdicts.append("translator self-check failed: " + bad)
        return q.result()
    q.s.add(*cons)
    if not q.obligations([it, it2, sp]):
        q.verdicts.append("unwinding assertion not discharged (bound too small)")
        return q.result()
    # 1. never raises, agrees with dpkg
    r, m = q.check(z3.Or(P.B(it.exc), _sgn(z3, impl) != _sgn(z3, spec)))
    if r == "sat":
        x, y = P.concrete_str(m, a), P.concrete_str(m, b)
        q.cex.append({"harness": "h_part", "params": {}, "args": {"x": x, "y": y},
                      "message": "kernel differs from dpkg verrevcmp on parts %r vs %r" % (x, y)})
    q.verdicts.append("ok" if r == "unsat" else ("agreement: " + r))
    # 2. antisymmetry of the implementation itself
    r, m = q.check(_sgn(z3, impl) != -_sgn(z3, impl_ba))
    if r == "sat":
        x, y = P.concrete_str(m, a), P.concrete_str(m, b)
        q.cex.append({"harness": "h_part", "params": {}, "args": {"x": x, "y": y},
                      "message": "cmp(a,b) != -cmp(b,a) on parts %r vs %r" % (x, y)})
    q.verdicts.append("ok" if r == "unsat" else ("antisymmetry: " + r))
    # 3. sanity (non-vacuity): some pair is ordered <, some >
    if la > 0 and lb > 0:
        for sgn in (-1, 1):
            r, m = q.check(_sgn(z3, impl) == sgn)
            if r == "sat":
                q.samples.append({"a": P.concrete_str(m, a), "b": P.concrete_str(m, b), "cmp": sgn})
            q.verdicts.append("ok" if r == "sat" else "sanity query not sat")
    return q.result()


def lemma_trans(params):
    """Transitivity of _version_cmp_part on triples |a|=la,|b|=lb,|c|=lc."""
    import z3
    from .. import pysym as P
    la, lb, lc = params["la"], params["lb"], params["lc"]
    q = _Q(params)
    try:
        a, b, c = _fixed(P, z3, "a", la), _fixed(P, z3, "b", lb), _fixed(P, z3, "c", lc)
        cons = P.alphabet(a, UP_RANGES) + P.alphabet(b, UP_RANGES) + P.alphabet(c, UP_RANGES)
        N = max(la, lb, lc)
        its = [P.Interp(NativeVersion, N + 1) for _ in range(3)]
        ab = its[0].call(NativeVersion._version_cmp_part, [P.PyRef(NativeVersion), a, b])
        bc = its[1].call(NativeVersion._version_cmp_part, [P.PyRef(NativeVersion), b, c])
        ac = its[2].call(NativeVersion._version_cmp_part, [P.PyRef(NativeVersion), a, c])
    except P.NotEncodable as e:
        q.counts["not_encodable"] += 1
        out = q.result()
        out.update(verdict="inconclusive", reason="not encodable: %s" % e)
        return out
    q.s.add(*cons)
    if not q.obligations(its):
        q.verdicts.append("unwinding assertion not discharged")
        return q.result()
    ab, bc, ac = P.I(ab), P.I(bc), P.I(ac)
    r, m = q.check(z3.And(ab <= 0, bc <= 0, z3.Or(ac > 0, z3.And(z3.Or(ab < 0, bc < 0), ac >= 0))))
    if r == "sat":
        x, y, w = P.concrete_str(m, a), P.concrete_str(m, b), P.concrete_str(m, c)
        q.cex.append({"harness": "h_trans", "params": {}, "args": {"a": "1:" + x + "-1", "b": "1:" + y + "-1", "c": "1:" + w + "-1"},
                      "message": "transitivity fails on %r <= %r <= %r" % (x, y, w)})
    q.verdicts.append("ok" if r == "unsat" else ("transitivity: " + r))
    return q.result()


def lemma_compare(params):
    """_compare (epochs, absent revision, part order) vs dpkg_compare for short components."""
    import z3
    from .. import pysym as P
    n = params["n"]
    q = _Q(params)
    try:
        cons = []
        objs, comps = [], []
        for tag in ("x", "y"):
            e, c1 = P.sym_str(tag + "e", 2, 1)
            u, c2 = P.sym_str(tag + "u", n, 1)
            r, c3 = P.sym_str(tag + "r", n, 1)
            eno, rno = z3.Bool(tag + "_noepoch"), z3.Bool(tag + "_norev")
            cons += c1 + c2 + c3 + P.alphabet(e, [(48, 57)]) + P.alphabet(u, UP_RANGES) + P.alphabet(r, REV_RANGES)
            eo, ro = P.SOpt(eno, e), P.SOpt(rno, r)
            objs.append(P.Obj({"epoch": eo, "upstream_version": u, "debian_revision": ro}, cls=Version))
            comps.append((eo, u, ro, e, r, eno, rno))
        it = P.Interp(Version, n + 1)
        impl = it.call(NativeVersion._compare, [objs[0], objs[1]])
        sp = P.Interp(None, n + 1)
        spec = sp.call(D.dpkg_compare, [comps[0][0], comps[0][1], comps[0][2], comps[1][0], comps[1][1], comps[1][2]])
    except P.NotEncodable as e:
        q.counts["not_encodable"] += 1
        out = q.result()
        out.update(verdict="inconclusive", reason="not encodable: %s" % e)
        return out
    q.s.add(*cons)
    if not q.obligations([it, sp]):
        q.verdicts.append("unwinding assertion not discharged")
        return q.result()
    r, m = q.check(z3.Or(P.B(it.exc), _sgn(z3, impl) != _sgn(z3, spec)))
    if r == "sat":
        vs = []
        for (eo, u, ro, e, rr, eno, rno) in comps:
            ev = None if z3.is_true(m.eval(eno, model_completion=True)) else P.concrete_str(m, e)
            rv = None if z3.is_true(m.eval(rno, model_completion=True)) else P.concrete_str(m, rr)
            vs.append(_mkversion(ev, P.concrete_str(m, u), rv))
        q.cex.append({"harness": "h_cmp", "params": {}, "args": {"a": vs[0], "b": vs[1]},
                      "message": "_compare differs from dpkg on %r vs %r" % (vs[0], vs[1])})
    q.verdicts.append("ok" if r == "unsat" else ("compare: " + r))
    for sgn in (-1, 0, 1):
        r, m = q.check(_sgn(z3, impl) == sgn)
        q.verdicts.append("ok" if r == "sat" else "sanity query not sat")
    return q.result()


def lemma_hash(params):
    """Solver-generated pairs that compare equal but are spelled differently; hash law checked concretely."""
    import z3
    from .. import pysym as P
    n, k = params["n"], params["pairs"]
    q = _Q(params)
    try:
        a, ca = P.sym_str("a", n, 1)
        b, cb = P.sym_str("b", n, 1)
        it = P.Interp(NativeVersion, n + 1)
        impl = it.call(NativeVersion._version_cmp_part, [P.PyRef(NativeVersion), a, b])
    except P.NotEncodable as e:
        q.counts["not_encodable"] += 1
        out = q.result()
        out.update(verdict="inconclusive", reason="not encodable: %s" % e)
        return out
    q.s.add(*(ca + cb + P.alphabet(a, REV_RANGES) + P.alphabet(b, REV_RANGES)))
    q.s.add(P.I(impl) == 0, z3.Not(P.B(P.str_eq(a, b))), z3.Not(P.B(it.exc)))
    # one *reason* for equality per call (params["reason"]), so that every known way of spelling an
    # equal version differently is exercised, not only the solver's favourite
    reason = params.get("reason", "any")
    last_a = z3.IntVal(0)
    for i, c in enumerate(a.ch):
        last_a = z3.If(P.I(a.len) == i + 1, c, last_a)
    if reason == "implicit-zero":          # a ends in a non-digit run, b spells the implied 0 out
        q.s.add(z3.Not(z3.And(last_a >= 48, last_a <= 57)), P.I(b.len) == P.I(a.len) + 1)
    elif reason == "leading-zero":
        q.s.add(P.I(b.len) > P.I(a.len), z3.And(last_a >= 48, last_a <= 57))
    found = 0
    forms = [lambda x, y: (x, y), lambda x, y: ("1-" + x, "1-" + y), lambda x, y: ("0:" + x, x + "-0"),
             lambda x, y: (x + "-" + y, x + "-" + x), lambda x, y: ("3:" + x + "-" + x, "03:" + y + "-" + y)]
    while found < k:
        r, m = q.check()
        if r != "sat":
            break
        x, y = P.concrete_str(m, a), P.concrete_str(m, b)
        found += 1
        if len(q.samples) < 6:
            q.samples.append({"equal_pair": [x, y]})
        for f in forms:
            va, vb = f(x, y)
            try:
                h_hash({}, va, vb)
            except Skip:
                continue
            except AssertionError as e:
                q.cex.append({"harness": "h_hash", "params": {}, "args": {"a": va, "b": vb}, "message": str(e)})
                break
        # block this pair's *shape* (lengths + the exact strings) to get diverse models
        q.s.add(z3.Or(z3.Not(P.B(P.str_eq(a, x))), z3.Not(P.B(P.str_eq(b, y)))))
        if found % 3 == 0:
            q.s.add(z3.Or(P.I(a.len) != len(x), P.I(b.len) != len(y)))
        if q.cex:
            break
    q.verdicts.append("ok" if found > 0 else "no equal-but-different pair found")
    out = q.result()
    out["pairs_checked"] = found
    return out


def partitions(tier, seed):
    P = []
    N = 4 if tier == "quick" else 6
    for la in range(1, N + 1):
        for lb in range(1, N + 1):
            cost = 1 + (la * lb) ** 2 // 6
            P.append(dict(name="kernel/%d-%d" % (la, lb), kind="py", func="lemma_kernel",
                          params=dict(la=la, lb=lb, seed=seed, timeout_ms=600000 if tier == "quick" else 3000000),
                          budget=min(3600, 30 + cost * 3), bounds="all part strings |a|=%d |b|=%d over [A-Za-z0-9.+~:-]" % (la, lb)))
    T = 2 if tier == "quick" else 3
    for la in range(1, T + 1):
        for lb in range(1, T + 1):
            for lc in range(1, T + 1):
                P.append(dict(name="trans/%d-%d-%d" % (la, lb, lc), kind="py", func="lemma_trans",
                              params=dict(la=la, lb=lb, lc=lc, timeout_ms=600000), budget=600,
                              bounds="all triples of parts with these lengths"))
    P.append(dict(name="compare/n%d" % (2 if tier == "quick" else 3), kind="py", func="lemma_compare",
                  params=dict(n=2 if tier == "quick" else 3, timeout_ms=900000), budget=900,
                  bounds="epoch None or 1-2 digits; upstream 1..n chars; revision None or 1..n chars"))
    for reason in ("any", "implicit-zero", "leading-zero"):
        P.append(dict(name="hash/pairs/%s" % reason, kind="py", func="lemma_hash",
                      params=dict(n=4, pairs=12 if tier == "quick" else 60, reason=reason),
                      budget=300, bounds="solver-generated equal-but-different parts up to 4 chars (%s), embedded in 5 version shapes" % reason))
    for la in range(1, (3 if tier == "quick" else 4) + 1):
        for lb in range(1, (3 if tier == "quick" else 4) + 1):
            P.append(dict(name="part-vs-dpkg/%d-%d" % (la, lb), harness="h_part_sym", params=dict(la=la, lb=lb),
                          budget=70 if tier == "quick" else 1500, reach=[],
                          bounds="engine A: all parts |x|=%d |y|=%d over [A-Za-z0-9.+~] embedded as upstream versions, dpkg reference executed symbolically" % (la, lb)))
    # digit-width boundaries (9/10, 18/19/20 digits) and other long shapes: concrete prefixes, symbolic tails
    D10, D19, D20 = "1234567890", "9223372036854775807", "18446744073709551616"
    prefixes = [(D10, D10), ("00" + D10, D10), (D10, D10[:9] + "1"), (D19, D19), (D20, D20), (D10 + ".", D10 + "."), ("1.0~rc", "1.0~rc"),
                (D10[:9], D10[:9]), ("20240101120000", "20240101120000")]
    for pi, (pa, pb) in enumerate(prefixes if tier != "quick" else prefixes[:5] + prefixes[8:]):
        for la, lb in (((0, 1), (1, 0), (1, 1), (2, 2)) if tier == "quick" else ((0, 1), (1, 0), (1, 1), (1, 2), (2, 1), (2, 2), (3, 3))):
            P.append(dict(name="long/%s..-%s../%d-%d" % (pa[:4] + str(len(pa)), pb[:4] + str(len(pb)), la, lb), harness="h_part_sym",
                          params=dict(la=la, lb=lb, pa=pa, pb=pb), budget=60 if tier == "quick" else 900, reach=[],
                          bounds="engine A: parts %r+x vs %r+y with |x|=%d |y|=%d symbolic over [A-Za-z0-9.+~], against the dpkg reference" % (pa, pb, la, lb)))
    P.append(dict(name="operators/n2", kind="py", func="lemma_ops", params=dict(n=2, timeout_ms=900000), budget=900,
                  bounds="the six rich-comparison methods vs the dpkg sign; epoch None or 1-2 digits, upstream/revision 1..2 chars"))
    L = 2 if tier == "quick" else 3
    for la in range(1, L + 1):
        for lb in range(1, L + 1):
            P.append(dict(name="glue/%d-%d" % (la, lb), harness="h_glue", params=dict(la=la, lb=lb),
                          budget=100 if tier == "quick" else 1200, bounds="all valid version strings |a|=%d |b|=%d: operators, version_compare, hash" % (la, lb)))
    P.append(dict(name="ops-vs-dpkg/1-1", harness="h_cmp", params=dict(la=1, lb=1), budget=100 if tier == "quick" else 1200,
                  bounds="all valid one-character versions against the dpkg reference executed symbolically"))
    return P


OPS = [("__lt__", lambda z3, s: s < 0), ("__le__", lambda z3, s: s <= 0), ("__eq__", lambda z3, s: s == 0),
       ("__ne__", lambda z3, s: s != 0), ("__ge__", lambda z3, s: s >= 0), ("__gt__", lambda z3, s: s > 0)]


def lemma_ops(params):
    """BaseVersion.__lt__ ... __gt__ translated from source: each returns the relation of dpkg's sign."""
    import z3
    from .. import pysym as P
    n = params["n"]
    q = _Q(params)
    try:
        cons = []
        objs, comps = [], []
        for tag in ("x", "y"):
            e, c1 = P.sym_str(tag + "e", 2, 1)
            u, c2 = P.sym_str(tag + "u", n, 1)
            r, c3 = P.sym_str(tag + "r", n, 1)
            eno, rno = z3.Bool(tag + "_noepoch"), z3.Bool(tag + "_norev")
            cons += c1 + c2 + c3 + P.alphabet(e, [(48, 57)]) + P.alphabet(u, UP_RANGES) + P.alphabet(r, REV_RANGES)
            eo, ro = P.SOpt(eno, e), P.SOpt(rno, r)
            objs.append(P.Obj({"epoch": eo, "upstream_version": u, "debian_revision": ro}, cls=Version))
            comps.append((eo, u, ro, e, r, eno, rno))
        sp = P.Interp(None, n + 1)
        spec = sp.call(D.dpkg_compare, [comps[0][0], comps[0][1], comps[0][2], comps[1][0], comps[1][1], comps[1][2]])
        q.s.add(*cons)
        if not q.obligations([sp]):
            q.verdicts.append("unwinding assertion not discharged")
            return q.result()
        for name, rel in OPS:
            it = P.Interp(Version, n + 1)
            res = it.call(getattr(BaseVersion, name), [objs[0], objs[1]])
            if not q.obligations([it]):
                q.verdicts.append("unwinding assertion not discharged")
                continue
            want = rel(z3, _sgn(z3, spec))
            r, m = q.check(z3.Or(P.B(it.exc), P.B(P.truthy(res)) != want))
            if r == "sat":
                vs = []
                for (eo, u, ro, e, rr, eno, rno) in comps:
                    ev = None if z3.is_true(m.eval(eno, model_completion=True)) else P.concrete_str(m, e)
                    rv = None if z3.is_true(m.eval(rno, model_completion=True)) else P.concrete_str(m, rr)
                    vs.append(_mkversion(ev, P.concrete_str(m, u), rv))
                q.cex.append({"harness": "h_cmp", "params": {}, "args": {"a": vs[0], "b": vs[1]},
                              "message": "%s differs from dpkg on %r vs %r" % (name, vs[0], vs[1])})
            q.verdicts.append("ok" if r == "unsat" else ("%s: %s" % (name, r)))
    except P.NotEncodable as e:
        q.counts["not_encodable"] += 1
        out = q.result()
        out.update(verdict="inconclusive", reason="not encodable: %s" % e)
        return out
    return q.result()
