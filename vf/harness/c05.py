"""C05 -- edits through the format-preserving parser are local and read back."""
from debian._deb822_repro import parse_deb822_file

from ..hx import assume, require, reach, Skip
from ..oracles.docmodel import scan, as_items, split_lines

MANIFEST = dict(
    engines="A",
    technique="symbolic execution (CrossHair+z3) of the format-preserving parser's dict interface (__setitem__/__delitem__, set_field_to_simple_value, set_field_from_raw_string, set/remove_kvpair_element) over a catalogue of document layouts: the operation, paragraph, target key (incl. case variants and fresh keys) are symbolic integers and the new value is a symbolic string; the result is compared with a text-splice model computed by an independent line scanner",
    text="Bounded model checking: for 12 document layouts (comments above fields and inside values, multi-line values, tabs, trailing blanks, 1-2 paragraphs, with/without final newline), every set / add / delete on every paragraph and key (existing, case variant, fresh) with single-line values of up to 2-3 symbolic characters or two-line values with symbolic parts, and sequences of two operations (thorough): the dump differs from the original only inside the edited field (prefix and suffix bytes identical; a new field sits at the end of its paragraph on its own lines; a deleted field's lines vanish; a missing final newline is supplied only when something is placed after it), and an independent re-scan and a fresh parse both show the new value under case-insensitive lookup with the original spelling, all else equal. One layout has comment lines ending in blanks/form feed above the edited field.",
    note="Document layouts are concrete; operation/paragraph/key are symbolic indices and the value text is symbolic. Assumed: new values have no leading/trailing blanks and are non-empty (the interface trims them), contain no line-break characters other than the separating newline; documents contain no error tokens. Whether a deleted field's attached comment lines go with it is not fixed by the statement: both are accepted.",
)

FUNCTIONS = ["debian._deb822_repro.parsing.Deb822ParagraphToStrWrapperMixin.__setitem__",
             "debian._deb822_repro.parsing.AutoResolvingMixin.__delitem__",
             "debian._deb822_repro.parsing.Deb822ParagraphElement.set_field_to_simple_value",
             "debian._deb822_repro.parsing.Deb822ParagraphElement.set_field_from_raw_string",
             "debian._deb822_repro.parsing.Deb822NoDuplicateFieldsParagraphElement.set_kvpair_element",
             "debian._deb822_repro.parsing.Deb822NoDuplicateFieldsParagraphElement.remove_kvpair_element",
             "debian._deb822_repro.parsing.Deb822ValueElement.add_final_newline_if_missing"]
STUBS = []
ASSUMPTIONS = ["new single-line values are non-empty (the first line of a two-line value may be empty), without leading/trailing whitespace and without line-boundary characters except the '\\n' separating the two lines of a multi-line value",
               "documents are valid (no error tokens, unique field names per paragraph)"]
OUTSIDE = ["documents with error tokens or duplicate fields (C10 covers duplicates)", "values longer than 3 symbolic characters", "more than two operations"]

DOCS = [
    "Source: foo\nSection: utils\n",
    "Source: foo\nSection: utils",                                     # no final newline
    "# top\nSource: foo\n# about section\nSection: utils\n\nPackage: bar\nDepends: a,\n b,\n# inner\n c\nArchitecture: any\n",
    "Source: foo\n\nPackage: bar\nDescription: short\n long\n .\n more",   # multi-line, no final newline
    "A:1\nB:\t2  \nC:\n x\n",
    "Package: bar\nFiles:\n a\n\tb\n\n\n# free comment\n\nPackage: baz\nX-Y: z\n",
    "A: 1\n\nB: 2\n\n",                                                 # trailing blank line
    "A: 1\n#c1\n#c2\nB: 2\n  \nC: 3",                                   # whitespace-only separator, unterminated
    "A: 1\nB: 2  ",                                                     # unterminated last line with trailing blanks
    "A: 1\nB: ",                                                        # unterminated last line: empty value + blank
    "A: 1\nB:",                                                         # unterminated last line: empty value
    "# build tools \n#\t\n# \nDepends: a\n#  two \x0c words\t \nSection: utils\nLast: z\n",  # comment lines ending in blanks (round 3)
]
BOUNDARY = (10, 11, 12, 13, 28, 29, 30, 133, 0x2028, 0x2029)


def text_ok(s):
    ok = True
    for ch in s:
        o = ord(ch)
        for b in BOUNDARY:
            ok = ok & (o != b)
    return ok


def keys_for(para):
    """Key operands for a paragraph: each existing key, a case variant of each, and two fresh keys."""
    names = [f.name for f in para]
    return names + [n.swapcase() for n in names] + ["New-Field", "Zz"]


def lookup(para, key):
    for i, f in enumerate(para):
        if f.name.lower() == key.lower():
            return i
    return -1


def render_field(name, value):
    return "%s: %s\n" % (name, value)


def apply_and_check(params, text, doc, pi, op, ki, value):
    """Performs one operation on the library document and returns the expected new items."""
    lines, paras = scan(text)
    items = as_items(paras)
    para = paras[pi]
    keys = keys_for(para)
    key = keys[ki]
    fi = lookup(para, key)
    # the scanner numbers the paragraphs that have fields; the library keeps the (empty) element of a paragraph
    # whose only field was deleted by an earlier step, so library paragraphs are numbered the same way
    lib_para = [p for p in doc if len(list(p.keys())) > 0][pi]
    before = doc.dump()
    require(before == text, "dump of the document before the edit differs from its text", text=text, got=before)
    if op == 1:     # delete
        try:
            del lib_para[key]
        except KeyError:
            require(fi < 0, "KeyError deleting a present field", key=key)
            require(doc.dump() == before, "document changed by a failed delete")
            return text
        require(fi >= 0, "deleting a missing field did not raise KeyError", key=key)
        f = para[fi]
        keep_comments = "".join(lines[:f.first]) + "".join(lines[f.end:])
        drop_comments = "".join(lines[:f.start]) + "".join(lines[f.end:])
        got = doc.dump()
        only_field = len(para) == 1
        if not only_field:
            require(got == keep_comments or got == drop_comments, "delete is not local", key=key, got=got, want=drop_comments)
        reach(params, "deleted")
        return got
    # set / add
    try:
        lib_para[key] = value
    except ValueError as e:
        # every value this harness generates is a well-formed single- or two-line value
        require(False, "a well-formed value was rejected: %s" % e, key=key, value=value)
    got = doc.dump()
    if fi >= 0:
        f = para[fi]
        prefix = "".join(lines[:f.first])
        suffix = "".join(lines[f.end:])
        require(got.startswith(prefix), "bytes before the edited field changed", key=key, value=value, got=got, prefix=prefix)
        if suffix:
            mid_end = len(got) - len(suffix)
            require(got.endswith(suffix) and mid_end >= len(prefix), "bytes after the edited field changed", key=key, value=value, got=got, suffix=suffix)
            mid = got[len(prefix):mid_end]
        else:
            mid = got[len(prefix):]
        require(mid.endswith("\n") or not text.endswith("\n") or True, "field text")
        name = f.name
        reach(params, "replaced")
    else:
        last = para[-1]
        pos = last.end
        prefix = "".join(lines[:pos])
        suffix = "".join(lines[pos:])
        if prefix and not prefix.endswith("\n"):
            prefix += "\n"
        require(got.startswith(prefix), "bytes before the new field changed (it must go to the end of its paragraph)",
                key=key, value=value, got=got, prefix=prefix)
        require(got.endswith(suffix) and len(got) - len(suffix) >= len(prefix), "bytes after the new field changed", key=key, got=got, suffix=suffix)
        mid = got[len(prefix):len(got) - len(suffix)] if suffix else got[len(prefix):]
        require(mid.endswith("\n"), "a new field must occupy whole lines", mid=mid)
        name = key
        reach(params, "added")
    # the edited region is exactly one field with the new value
    ml, mp = scan(mid)
    require(len(mp) == 1 and len(mp[0]) == 1, "edited region is not exactly one field", mid=mid)
    require(mp[0][0].name == name, "field name spelling changed", got=mp[0][0].name, want=name)
    require(mp[0][0].value == value, "field value in the dump", got=mp[0][0].value, want=value)
    return got


def check_reparse(got, want_items):
    lines, paras = scan(got)
    require(as_items(paras) == want_items, "independent re-scan of the dump differs from the model", got=as_items(paras), want=want_items)
    doc2 = parse_deb822_file(split_lines(got))
    lib_items = [[(k, p[k]) for k in p.keys()] for p in doc2]
    require(lib_items == want_items, "fresh parse of the dump differs from the model", got=lib_items, want=want_items)
    for p, want in zip(doc2, want_items):
        for k, v in want:
            require(p[k.upper()] == v and p[k.lower()] == v, "case-insensitive lookup after the edit", key=k)


def model_apply(items, pi, key, op, value):
    out = [list(p) for p in items]
    p = out[pi]
    idx = -1
    for i, (n, _) in enumerate(p):
        if n.lower() == key.lower():
            idx = i
    if op == 1:
        if idx >= 0:
            del p[idx]
            if not p:
                del out[pi]
    else:
        if idx >= 0:
            p[idx] = (p[idx][0], value)
        else:
            p.append((key, value))
    return out


def h_edit(params, pi: int, op: int, ki: int, v: str, w: str, pi2: int, op2: int, ki2: int):
    text = DOCS[params["doc"]]
    lines, paras = scan(text)
    np_ = len(paras)
    assume(0 <= pi < np_)
    assume(0 <= op <= 1)
    assume(0 <= ki < len(keys_for(paras[pi])))
    if "ops" in params:
        assume(op in params["ops"])
    two_line = params.get("two_line", False)
    assume(len(v) == params["vlen"])
    assume(text_ok(v))
    assume(v == v.strip())
    if not two_line:
        assume(len(v) > 0)
    if two_line:
        assume(len(w) == params["wlen"])
        assume(text_ok(w) and len(w) > 0 and w.strip() != "")      # may end in blanks: kept verbatim
        value = v + "\n " + w
    else:
        assume(len(w) == 0)
        value = v
    if op == 1:
        assume(len(v) == params["vlen"])     # value unused for delete
    steps = params.get("steps", 1)
    doc = parse_deb822_file(split_lines(text))
    items = as_items(paras)
    key = keys_for(paras[pi])[ki]
    text1 = apply_and_check(params, text, doc, pi, op, ki, value)
    items1 = model_apply(items, pi, key, op, value)
    check_reparse(text1, items1)
    if steps >= 2:
        lines1, paras1 = scan(text1)
        assume(0 <= pi2 < len(paras1))
        assume(0 <= op2 <= 1)
        assume(0 <= ki2 < len(keys_for(paras1[pi2])))
        key2 = keys_for(paras1[pi2])[ki2]
        # the library document is the same object, edited twice
        text2 = apply_and_check(params, text1, doc, pi2, op2, ki2, "second")
        items2 = model_apply(items1, pi2, key2, op2, "second")
        check_reparse(text2, items2)
    else:
        assume((pi2 == 0) & (op2 == 0) & (ki2 == 0))


def partitions(tier, seed):
    P = []
    q = tier == "quick"
    for d in range(len(DOCS)):
        for vlen in ((1, 2) if q else (1, 2, 3)):
            if q and vlen == 2 and d not in (1, 3, 7, 8):
                continue
            P.append(dict(name="set/doc%d/v%d" % (d, vlen), harness="h_edit", params=dict(doc=d, vlen=vlen, ops=[0]), budget=90 if q else 1200,
                          reach=["replaced", "added"], bounds="layout %d: set/add on any paragraph and key, single-line value of %d arbitrary chars" % (d, vlen)))
        P.append(dict(name="del/doc%d" % d, harness="h_edit", params=dict(doc=d, vlen=1, ops=[1]), budget=60 if q else 600,
                      reach=["deleted"], bounds="layout %d: delete on any paragraph and key" % d))
        for vlen, wlen in (((1, 1), (0, 1), (1, 2)) if q else ((1, 1), (0, 1), (0, 2), (2, 1), (1, 2), (2, 2), (1, 3))):
            if q and (d not in (0, 1, 2, 3) or (wlen == 2 and d != 0)):
                continue
            P.append(dict(name="set2l/doc%d/v%d-w%d" % (d, vlen, wlen), harness="h_edit", params=dict(doc=d, vlen=vlen, wlen=wlen, two_line=True, ops=[0]),
                          budget=90 if q else 1200, reach=[], bounds="layout %d: two-line value with %d+%d arbitrary chars" % (d, vlen, wlen)))
        if not q:
            P.append(dict(name="two-ops/doc%d" % d, harness="h_edit", params=dict(doc=d, vlen=1, steps=2), budget=2400, reach=[],
                          bounds="layout %d: any first operation (1-char value) followed by any second operation" % d))
    return P
