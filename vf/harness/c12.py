"""C12 -- structured multi-line fields round-trip as records and can always be dumped."""
from debian import deb822
from debian.deb822 import BuildInfo, Changes, Dsc, PdiffIndex, Release

from ..hx import assume, require, reach, Skip
from ..stubs import IoShim

MANIFEST = dict(
    engines="A",
    technique="symbolic execution (CrossHair+z3) of _multivalued.__init__/get_as_string/_fixed_field_lengths for Dsc, Changes, BuildInfo, PdiffIndex and Release: class variant and the subset of structured fields present are symbolic integers, record tokens and sizes are symbolic strings",
    text="Bounded model checking: for each of the five classes (Release in both size modes), every subset of its structured fields being present (symbolic bitmask over up to 6 fields per partition), 1-2 records per field, one record made of symbolic whitespace-free tokens (up to 2 characters; size column 1-3 symbolic digits): parsing exposes the records under the documented sub-field names, dump() never raises, the dump re-parses to the same records in order, the size column is right-aligned to 16 (or the longest size), and a paragraph built from record lists dumps and re-parses to the same records. Every subset of the present fields may be written in single-line form (second symbolic bitmask); for Release the single-line size column is checked too.",
    note="Trusted: CrossHair's str models; stub: pure-Python StringIO inside debian.deb822 (the C StringIO realises symbolic text). Outside: empty record lists, gpg-signed input (C02 covers armor stripping).",
)

FUNCTIONS = ["debian.deb822._multivalued.__init__", "debian.deb822._multivalued.get_as_string", "debian.deb822._multivalued.validate_input",
             "debian.deb822.PdiffIndex._get_size_field_length", "debian.deb822.Release._get_size_field_length",
             "debian.deb822._gpg_multivalued.__init__"]
STUBS = ["PyStringIO replaces io.StringIO inside debian.deb822 (write/getvalue contract)"]
ASSUMPTIONS = ["record tokens are non-empty and free of whitespace (str.split semantics); size tokens are ASCII digits",
               "each present field has 1-2 records"]
OUTSIDE = ["more than 2 records per field", "tokens longer than 2 characters", "apt_pkg-backed paragraphs"]

VARIANTS = [("Dsc", Dsc, None), ("Changes", Changes, None), ("BuildInfo", BuildInfo, None),
            ("PdiffIndex", PdiffIndex, None), ("Release-apt", Release, "apt-ftparchive"), ("Release-dak", Release, "dak")]


def ws_free(t):
    return len(t) > 0 and len(t.split()) == 1 and t.split()[0] == t


def digits(t):
    ok = len(t) > 0
    for c in t:
        o = ord(c)
        ok = ok & (48 <= o) & (o <= 57)
    return ok


def pretty(field):
    return "-".join(w[:1].upper() + w[1:] for w in field.split("-"))


def make_records(subs, nrec, sym, fi):
    """Records for one field: the first record of the first present field carries the symbolic tokens."""
    recs = []
    for r in range(nrec):
        rec = []
        for j, sub in enumerate(subs):
            if sub == "size":
                tok = sym["size"] if (fi == 0 and r == 0) else str(7 * (10 ** r))
            elif fi == 0 and r == 0 and j == 0:
                tok = sym["t0"]
            elif fi == 0 and r == 0 and j == len(subs) - 1:
                tok = sym["t1"]
            else:
                tok = "%s%d%d" % (sub[:2], fi, r)
            rec.append(tok)
        recs.append(rec)
    return recs


def check_records(d, field, subs, recs, single, what):
    got = d[field]
    if single:
        require(hasattr(got, "keys"), "single-line field not exposed as one record " + what, field=field)
        got = [got]
    else:
        require(isinstance(got, list), "multi-line field not exposed as a list " + what, field=field, got=type(got).__name__)
    require(len(got) == len(recs), "record count " + what, field=field, got=len(got), want=len(recs))
    for g, r in zip(got, recs):
        require(list(g.keys()) == list(subs), "sub-field names " + what, field=field, got=list(g.keys()), want=list(subs))
        require([g[s] for s in subs] == r, "record values " + what, field=field, got=[g[s] for s in subs], want=r)


TOKENS = ["a", "Zz", "d41d8cd98f00b204e9800998ecf8427e", "\u00e9t\u00e9", "x:y", "#c", "-----BEGIN", "7"]
SIZES = ["7", "12345678901234567", "42", "1234567890123456", "0", "1024", "99999"]


def h_multi(params, mask: int, nrec: int, a: int, b: int, s0: int, s1: int, sl: int = 0):
    """Class variant fixed per partition; subset of present fields, record count, token and size
    choices are symbolic indices (paths run concretely)."""
    name, cls, mode = VARIANTS[params["variant"]]
    fields = sorted(cls._multivalued_fields)[params["lo"]:params["hi"]]
    assume(0 <= mask < (1 << len(fields)))
    assume(1 <= nrec <= 2)
    assume(0 <= a < len(TOKENS) and 0 <= b < len(TOKENS))
    assume(0 <= s0 < len(SIZES) and 0 <= s1 < len(SIZES))
    if "thin" in params:
        assume((a < 3) & (s0 < 4))
        assume(b == (a + 3) % len(TOKENS))
        assume(s1 == (s0 + 2) % len(SIZES))
    present = [f for i, f in enumerate(fields) if (mask >> i) & 1]
    # sl: which of the fields are written in single-line form ("Field: a size name": one record, exposed as a mapping)
    assume(0 <= sl < (1 << len(fields)))
    assume(sl & mask == sl)
    if not params.get("oneline"):
        assume(sl == 0)
    elif "thin" in params:
        assume((sl == mask) | (sl == (mask & 5)))
    text = "Origin: test\n"
    expect = {}
    for fi, f in enumerate(present):
        subs = cls._multivalued_fields[f]
        single = f.endswith("-current") or bool((sl >> fields.index(f)) & 1)
        recs = []
        for r in range(1 if single else nrec):
            rec = []
            for j, sub in enumerate(subs):
                if sub == "size":
                    # different digit counts per field, so that widths cannot be shared between fields
                    rec.append(SIZES[(s0 + fi) % len(SIZES)] if r == 0 else SIZES[(s1 + 2 * fi) % len(SIZES)])
                elif j == 0:
                    rec.append(TOKENS[(a + fi + r) % len(TOKENS)])
                else:
                    rec.append(TOKENS[(b + j + fi) % len(TOKENS)])
            recs.append(rec)
        expect[f] = (subs, recs, single)
        if single:
            text += "%s: %s\n" % (pretty(f), " ".join(recs[0]))
        else:
            text += "%s:\n" % pretty(f)
            for r in recs:
                text += " " + " ".join(r) + "\n"
    text += "Suite: x\n"
    _roundtrip(params, name, cls, mode, fields, present, expect, text)


def _roundtrip(params, name, cls, mode, fields, present, expect, text):
    saved = deb822.io
    deb822.io = IoShim()
    try:
        d = cls(text)
        if mode:
            d.size_field_behavior = mode
        for f, (subs, recs, single) in expect.items():
            check_records(d, f, subs, recs, single, "after parsing")
        for f in fields:
            if f not in present:
                require(f not in d, "absent field appears", field=f)
        try:
            out = d.dump()
        except KeyError as e:
            require(False, "dump() raised KeyError %s with fields %s present" % (e, present), variant=name)
        d2 = cls(out)
        if mode:
            d2.size_field_behavior = mode
        for f, (subs, recs, single) in expect.items():
            check_records(d2, f, subs, recs, single, "after dump and re-parse")
        require(list(d2.keys()) == list(d.keys()), "field order changed by dump", got=list(d2.keys()))
        # size column alignment
        if cls in (Release, PdiffIndex):
            lines = out.split("\n")
            for f, (subs, recs, single) in expect.items():
                if single:
                    if cls is Release:
                        r, si = recs[0], subs.index("size")
                        width = 16 if mode == "apt-ftparchive" else len(r[si])
                        want = "%s:  %s" % (pretty(f), " ".join(r[:si] + [" " * max(0, width - len(r[si])) + r[si]] + r[si + 1:]))
                        require(want in lines, "size column alignment of a single-line field", field=f, want=want, out=out)
                        reach(params, "aligned-single")
                    continue
                longest = max(len(r[subs.index("size")]) for r in recs)
                width = 16 if mode == "apt-ftparchive" else longest
                start = lines.index("%s:" % pretty(f))
                for k, r in enumerate(recs):
                    line = lines[start + 1 + k]
                    si = subs.index("size")
                    want = " " + " ".join(r[:si] + [" " * max(0, width - len(r[si])) + r[si]] + r[si + 1:])
                    require(line == want, "size column alignment", field=f, line=line, want=want)
                reach(params, "aligned")
        # in-place edit after a dump (the class allows mutable record lists): widths must follow
        if cls in (Release, PdiffIndex):
            edited = False
            for f, (subs, recs, single) in expect.items():
                if single:
                    continue
                newrec = [("123456789" if s_ == "size" else "E%d" % j) for j, s_ in enumerate(subs)]
                d[f].append(deb822.Deb822Dict(zip(subs, newrec)))
                recs2 = recs + [newrec]
                out3 = d.dump()
                lines3 = out3.split("\n")
                width = 16 if mode == "apt-ftparchive" else max(len(r[subs.index("size")]) for r in recs2)
                start = lines3.index("%s:" % pretty(f))
                si = subs.index("size")
                for k, r in enumerate(recs2):
                    want = " " + " ".join(r[:si] + [" " * max(0, width - len(r[si])) + r[si]] + r[si + 1:])
                    require(lines3[start + 1 + k] == want, "size column alignment after an in-place edit and a second dump",
                            field=f, line=lines3[start + 1 + k], want=want)
                d[f].pop()
                edited = True
                break
            if edited:
                require(d.dump() == out, "dump after undoing the in-place edit differs from the first dump")
                reach(params, "edited")
        # building from record lists
        bld = cls()
        if mode:
            bld.size_field_behavior = mode
        bld["Origin"] = "test"
        for f, (subs, recs, single) in expect.items():
            if single:
                bld[pretty(f)] = deb822.Deb822Dict(zip(subs, recs[0]))
            else:
                bld[pretty(f)] = [deb822.Deb822Dict(zip(subs, r)) for r in recs]
        out2 = bld.dump()
        d3 = cls(out2)
        for f, (subs, recs, single) in expect.items():
            check_records(d3, f, subs, recs, single, "after building from records, dump and re-parse")
        if present:
            reach(params, "nonempty")
    finally:
        deb822.io = saved


def h_tokens(params, t0: str, t1: str, size: str):
    """One field, one or two records with fully symbolic tokens (lines given as a list, so that only
    the record line is symbolic)."""
    name, cls, mode = VARIANTS[params["variant"]]
    f = params["field"]
    subs = cls._multivalued_fields[f]
    assume(len(t0) == params["tlen"] and len(t1) == params["tlen"] and len(size) == params["slen"])
    assume(ws_free(t0) and ws_free(t1) and digits(size))
    rec = []
    for j, sub in enumerate(subs):
        rec.append(size if sub == "size" else (t0 if j == 0 else (t1 if j == len(subs) - 1 else "m%d" % j)))
    rec2 = [("9" if sub == "size" else "q%d" % j) for j, sub in enumerate(subs)]
    lines = ["%s:\n" % pretty(f), " " + " ".join(rec) + "\n", " " + " ".join(rec2) + "\n"]
    saved = deb822.io
    deb822.io = IoShim()
    try:
        d = cls(lines)
        if mode:
            d.size_field_behavior = mode
        check_records(d, f, subs, [rec, rec2], False, "after parsing")
        out = d.dump()
        si = subs.index("size")
        width = 16 if mode == "apt-ftparchive" else (max(len(size), 1) if cls in (Release, PdiffIndex) else 0)
        padded = (" " * max(0, width - len(size)) + size) if cls in (Release, PdiffIndex) else size
        want1 = " " + " ".join(rec[:si] + [padded] + rec[si + 1:])
        require(out.startswith("%s:\n%s\n" % (pretty(f), want1)), "rendered record line", out=out, want=want1)
        d2 = cls(out.split("\n"))
        check_records(d2, f, subs, [rec, rec2], False, "after dump and re-parse")
    finally:
        deb822.io = saved


def partitions(tier, seed):
    P = []
    q = tier == "quick"
    for vi, (name, cls, mode) in enumerate(VARIANTS):
        nf = len(cls._multivalued_fields)
        step = 4 if q else 7
        for lo in range(0, nf, step):
            hi = min(nf, lo + step)
            params = dict(variant=vi, lo=lo, hi=hi)
            if q:
                params["thin"] = True
            P.append(dict(name="%s/fields%d-%d" % (name, lo, hi), harness="h_multi", params=params, budget=100 if q else 2400,
                          reach=["nonempty"] + (["aligned"] if cls in (Release, PdiffIndex) else []),
                          bounds="%s: every subset of structured fields %d..%d present, 1-2 records, tokens/sizes by symbolic index from catalogues of %d/%d" % (name, lo, hi - 1, len(TOKENS), len(SIZES))))
            if cls is Release or not q:
                P.append(dict(name="%s/fields%d-%d/single-line" % (name, lo, hi), harness="h_multi", params=dict(params, oneline=True), budget=100 if q else 2400,
                              reach=["nonempty"] + (["aligned-single"] if cls is Release else []),
                              bounds="%s: as above with every subset%s of the present fields written in single-line form" % (name, " (thinned)" if q else "")))
        fs = sorted(cls._multivalued_fields)
        for f in ((fs[0],) if q else (fs[0], fs[-1])):
            if f.endswith("-current"):
                f = fs[1]
            for tlen, slen in (((1, 1),) if q else ((1, 1), (2, 2), (1, 3), (2, 3))):
                P.append(dict(name="%s/tokens/%s/t%d-s%d" % (name, f, tlen, slen), harness="h_tokens",
                              params=dict(variant=vi, field=f, tlen=tlen, slen=slen), budget=100 if q else 1500, reach=[],
                              bounds="%s field %s: record tokens of %d arbitrary non-blank characters, size of %d digits" % (name, f, tlen, slen)))
    return P
