"""Self-validation of the trusted base (DESIGN.md 2.2, 2.3, 2.5).  Run with `./check selftest`.

  pyfile   PyFile (stub) == io.BytesIO on every sequence of three operations over 6-byte data
  re2smt   for every compiled pattern in debian.*: membership in the IR languages full()/match()
           equals CPython's fullmatch()/match() on all strings of length <= 3 over a per-pattern alphabet
  xhre     CrossHair's (repaired) regex model on *symbolic* subjects constrained to corpus strings
           returns what CPython's re returns (match/None, span, groups, findall)
A disagreement is reported as a counterexample; it never concerns /repo.
"""
import importlib
import io
import itertools
import re

from ..hx import assume, require, reach, Skip
from ..stubs import PyFile

FUNCTIONS = []
MODULES = ["debian.deb822", "debian.changelog", "debian.copyright", "debian.debian_support", "debian.debtags",
           "debian._deb822_repro.tokens", "debian.watch", "debian.debfile"]


def all_patterns():
    out = []
    seen = set()
    for mn in MODULES:
        try:
            mod = importlib.import_module(mn)
        except Exception:
            continue
        spaces = [(mn, vars(mod))]
        for name, obj in list(vars(mod).items()):
            if isinstance(obj, type) and obj.__module__ == mn:
                spaces.append((mn + "." + name, vars(obj)))
        for prefix, ns in spaces:
            for name, obj in list(ns.items()):
                if isinstance(obj, re.Pattern) and id(obj) not in seen:
                    seen.add(id(obj))
                    out.append((prefix + "." + name, obj))
    return out


def alphabet_for(pat):
    src = pat.pattern
    txt = src.decode("latin-1") if isinstance(src, bytes) else src
    lits = [c for c in txt if c.isalnum() or c in " :;,.-+<>=()[]!#$/*|~_"]
    base = []
    for c in lits:
        if c not in base:
            base.append(c)
    base = base[:6]
    for c in ("a", "1", " ", "\n", ":", "-"):
        if c not in base:
            base.append(c)
    if not isinstance(src, bytes):
        base += ["é", "٣"]
    return base[:10]


def corpus_for(pat, maxlen):
    al = alphabet_for(pat)
    out = [""]
    for n in range(1, maxlen + 1):
        for t in itertools.product(al, repeat=n):
            out.append("".join(t))
    if isinstance(pat.pattern, bytes):
        out = [s.encode("latin-1") for s in out if all(ord(c) < 256 for c in s)]
    return out


def lemma_pyfile(params):
    """All operation triples on 6-byte data: PyFile == io.BytesIO."""
    data = b"ab\ncd\n"[:params.get("n", 6)] if params.get("variant", 0) == 0 else b"\n\nxyz"
    ops = []
    for n in (-1, 0, 1, 2, 7):
        ops.append(("read", n))
        ops.append(("readline", n))
    for off in (0, 1, 3, 6, 8):
        ops.append(("seek0", off))
    for off in (-2, 0, 2):
        ops.append(("seek1", off))
        ops.append(("seek2", off))
    ops.append(("tell", 0))
    ops.append(("readlines", 0))

    def run(f, op, n):
        if op == "read":
            return f.read(n)
        if op == "readline":
            return f.readline(n)
        if op == "seek0":
            return f.seek(n, 0)
        if op == "seek1":
            return f.seek(n, 1)
        if op == "seek2":
            return f.seek(n, 2)
        if op == "tell":
            return f.tell()
        return f.readlines()

    bad, total = [], 0
    for a in ops:
        for b in ops:
            for c in ops:
                x, y = PyFile(data), io.BytesIO(data)
                total += 1
                try:
                    rx = [run(x, *o) for o in (a, b, c)] + [x.tell()]
                except Exception as e:   # noqa: BLE001
                    rx = repr(type(e))
                try:
                    ry = [run(y, *o) for o in (a, b, c)] + [y.tell()]
                except Exception as e:   # noqa: BLE001
                    ry = repr(type(e))
                if rx != ry and len(bad) < 5:
                    bad.append({"ops": [a, b, c], "pyfile": repr(rx), "bytesio": repr(ry)})
    return {"engine": "selftest", "verdict": "confirmed" if not bad else "inconclusive",
            "reason": "%d operation triples agree" % total if not bad else "PyFile disagrees with BytesIO: %r" % bad[:2],
            "queries": {"unsat": total - len(bad), "sat": 0, "unknown": len(bad), "not_encodable": 0}, "counterexamples": [], "samples": bad[:3]}


def lemma_re2smt(params):
    from .. import re2smt as R
    pats = all_patterns()
    lo, hi = params["range"]
    bad, ne, total = [], [], 0
    for name, pat in pats[lo:hi]:
        try:
            F = R.full(pat)
        except R.NotEncodable as e:
            F = None
            ne.append("%s full: %s" % (name, e))
        try:
            M = R.match(pat)
        except R.NotEncodable as e:
            M = None
            ne.append("%s match: %s" % (name, e))
        for s in corpus_for(pat, params.get("maxlen", 3)):
            subj = s.decode("latin-1") if isinstance(s, bytes) else s
            if F is not None:
                total += 1
                if R.member(F, subj) != (pat.fullmatch(s) is not None) and len(bad) < 8:
                    bad.append({"pattern": name, "subject": repr(s), "kind": "full", "re": pat.fullmatch(s) is not None})
            if M is not None:
                total += 1
                if R.member(M, subj) != (pat.match(s) is not None) and len(bad) < 8:
                    bad.append({"pattern": name, "subject": repr(s), "kind": "match", "re": pat.match(s) is not None})
    return {"engine": "selftest", "verdict": "confirmed" if not bad else "inconclusive",
            "reason": ("%d membership checks agree with CPython re (%d patterns, %d not encodable: %s)" % (total, hi - lo, len(ne), "; ".join(ne)[:300])) if not bad
            else "re2smt disagrees with CPython re: %r" % bad[:3],
            "queries": {"unsat": total - len(bad), "sat": 0, "unknown": len(bad), "not_encodable": len(ne)}, "counterexamples": [], "samples": bad[:5] + [{"not_encodable": ne[:10]}]}


def _real(pat, s):
    m = pat.match(s)
    f = pat.fullmatch(s)
    se = pat.search(s)
    return {"match": None if m is None else (m.span(), m.groups()),
            "full": None if f is None else (f.span(), f.groups()),
            "search": None if se is None else (se.span(), se.groups()),
            "findall": pat.findall(s)}


def h_xhre(params, s: str, i: int):
    """CrossHair's regex model on a symbolic subject pinned to a corpus string equals CPython's re."""
    pats = all_patterns()
    name, pat = pats[params["pattern"]]
    assume(not isinstance(pat.pattern, bytes))
    corpus = corpus_for(pat, params["maxlen"])[params["lo"]:params["hi"]]
    assume(0 <= i < len(corpus))
    want = EXPECTED[(params["pattern"], params["maxlen"])][params["lo"] + i]
    assume(s == corpus[i])
    m = pat.match(s)
    got = None if m is None else (m.span(), m.groups())
    require(got == want["match"], "match() differs from CPython", pattern=name, subject=corpus[i], got=got, want=want["match"])
    f = pat.fullmatch(s)
    got = None if f is None else (f.span(), f.groups())
    require(got == want["full"], "fullmatch() differs from CPython", pattern=name, subject=corpus[i], got=got, want=want["full"])
    se = pat.search(s)
    got = None if se is None else (se.span(), se.groups())
    require(got == want["search"], "search() differs from CPython", pattern=name, subject=corpus[i], got=got, want=want["search"])
    got = pat.findall(s)
    require(got == want["findall"], "findall() differs from CPython", pattern=name, subject=corpus[i], got=got, want=want["findall"])


class _Expected(dict):
    def __missing__(self, key):
        pi, maxlen = key
        name, pat = all_patterns()[pi]
        v = [_real(pat, s) for s in corpus_for(pat, maxlen)]
        self[key] = v
        return v


EXPECTED = _Expected()


def partitions(tier, seed):
    P = [dict(name="pyfile/0", kind="py", func="lemma_pyfile", params=dict(variant=0), budget=300, bounds="all operation triples on b'ab\\ncd\\n'"),
         dict(name="pyfile/1", kind="py", func="lemma_pyfile", params=dict(variant=1), budget=300, bounds="all operation triples on b'\\n\\nxyz'")]
    n = len(all_patterns())
    for lo in range(0, n, 6):
        P.append(dict(name="re2smt/%d-%d" % (lo, min(n, lo + 6)), kind="py", func="lemma_re2smt", params=dict(range=[lo, min(n, lo + 6)], maxlen=3),
                      budget=600, bounds="patterns %d..%d of debian.*, all strings of length <= 3 over a 10-character alphabet" % (lo, min(n, lo + 6) - 1)))
    q = tier == "quick"
    for pi, (name, pat) in enumerate(all_patterns()):
        if isinstance(pat.pattern, bytes):
            continue
        ml = 1 if q else 2
        size = len(corpus_for(pat, ml))
        step = 12 if q else 40
        for lo in range(0, size, step):
            P.append(dict(name="xhre/%s/%d" % (name, lo), harness="h_xhre", params=dict(pattern=pi, maxlen=ml, lo=lo, hi=min(size, lo + step)),
                          budget=200 if q else 1200, reach=[], no_twin=True,
                          bounds="pattern %s on corpus strings %d..%d (length <= %d)" % (name, lo, min(size, lo + step) - 1, ml)))
    return P
