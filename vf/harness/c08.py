"""C08 -- an accepted field value can never inject fields or split the paragraph."""
from debian.deb822 import Deb822

from ..hx import assume, require, reach, Skip

MANIFEST = dict(
    engines="AB",
    technique="symbolic execution (CrossHair+z3) of Deb822.__setitem__/validate_input -> dump -> iter_paragraphs with a symbolic value whose line-break positions are fixed per partition; regex-to-SMT lemmas (z3 regex, unbounded line length) tying what the validator lets through to the parser's regexes",
    text="Engine A: for every value of up to 3 (thorough: 5) characters over printable ASCII, tab, CR and newline (newline positions fixed per partition, every other character symbolic), assigned to an existing or a new field of a three-field paragraph: either ValueError with the paragraph unchanged, or the dump re-reads (non-strict whitespace mode, and default mode when no continuation line is blank) as exactly one paragraph with exactly the same field names and untouched neighbours; must-reject values are rejected and plainly valid values are accepted. Engine B: for continuation lines of ANY length that the validator accepts, the parser's _single/_multi/_gpgre/blank-line regexes cannot match them, and 'Key: first-line' always parses as that key. The paragraph is obtained in ten ways (empty constructor, empty str/list, comments only, dict, parsed, copy, iter_paragraphs, Dsc).",
    note="Trusted: CrossHair's str/bytes/regex models (repaired; counterexamples replayed on CPython), z3 regex theory, the re->z3 translation. Assumed away (as the property states): characters Python treats as whitespace/line boundaries that the format does not define (VT, FF, FS-US, NEL, NBSP, LS, PS ...); keys are valid field names.",
)

FUNCTIONS = ["debian.deb822.Deb822.validate_input", "debian.deb822.Deb822.__setitem__", "debian.deb822.Deb822._dump_format",
             "debian.deb822.Deb822.iter_paragraphs", "debian.deb822.Deb822._skip_useless_lines",
             "debian.deb822.Deb822.split_gpg_and_payload", "debian.deb822.Deb822._internal_parser"]
STUBS = []
ASSUMPTIONS = ["value characters: U+0020..U+007E, tab, CR, newline (the property's domain)",
               "field names are valid (no colon/whitespace, not starting with '#' or '-')"]
OUTSIDE = ["values longer than the partition bound (engine A)", "apt_pkg parser"]


def dom_char(c):
    o = ord(c)
    return ((32 <= o) & (o <= 126)) | (o == 9) | (o == 13)


def split_lines(v):
    """Line structure of a value: LF, CR and CRLF end a line (CR is in the property's domain and
    both the format's readers and Python treat it as a line break); no trailing empty element."""
    out, cur, i, n = [], "", 0, len(v)
    while i < n:
        c = v[i]
        if c == "\n" or c == "\r":
            out.append(cur)
            cur = ""
            if c == "\r" and i + 1 < n and v[i + 1] == "\n":
                i += 1
        else:
            cur = cur + c
        i += 1
    if cur != "" or (n > 0 and not (v[n - 1] == "\n" or v[n - 1] == "\r")):
        out.append(cur)
    return out


def must_reject(v):
    """By the statement: ends in newline, has an empty line, or a continuation line not starting with whitespace."""
    if v.endswith("\n"):
        return True
    for l in split_lines(v)[1:]:
        if l == "":
            return True
        if not ((l[0] == " ") | (l[0] == "\t")):
            return True
    return False


def plainly_valid(v):
    return ("\r" not in v) and not must_reject(v)


def has_blank_continuation(v):
    for l in split_lines(v)[1:]:
        if l.strip(" \t") == "":
            return True
    return False


ORIGINS = ["empty", "empty-str", "empty-lines", "comments-only", "dict", "parsed", "parsed-lines", "copy", "iter", "dsc"]


def make_paragraph(origin):
    """The paragraph under test, reached in every way the API offers (validation must not depend on it)."""
    text = "A: 1\nK: old\n more\nZ: 9\n"
    if origin in ("empty", "empty-str", "empty-lines", "comments-only"):
        d = {"empty": lambda: Deb822(), "empty-str": lambda: Deb822(""), "empty-lines": lambda: Deb822([]),
             "comments-only": lambda: Deb822("# nothing here\n\n")}[origin]()
        d["A"] = "1"
        d["K"] = "old\n more"
        d["Z"] = "9"
        return d
    if origin == "dict":
        return Deb822({"A": "1", "K": "old\n more", "Z": "9"})
    if origin == "parsed":
        return Deb822(text)
    if origin == "parsed-lines":
        return Deb822(text.split("\n")[:-1])
    if origin == "copy":
        return Deb822(text).copy()
    if origin == "iter":
        return list(Deb822.iter_paragraphs("X: 0\n\n" + text))[1]
    from debian.deb822 import Dsc
    return Dsc(text)


def h_value(params, x: str):
    shape = params["shape"]                  # e.g. "xNx": N = newline, x = symbolic non-newline char
    nx = shape.count("x")
    assume(len(x) == nx)
    ok = True
    for ch in x:
        ok = ok & dom_char(ch)
    assume(ok)
    v = ""
    k = 0
    for s in shape:
        if s == "N":
            v = v + "\n"
        else:
            v = v + x[k]
            k += 1
    key = params["key"]
    d = make_paragraph(params.get("origin", "empty"))
    before = d.dump()
    names = ["A", "K", "Z"] + ([key] if key not in ("A", "K", "Z") else [])
    try:
        d[key] = v
    except ValueError:
        require(not plainly_valid(v), "a valid value was rejected", v=v)
        require(d.dump() == before, "paragraph changed by a rejected assignment", v=v, after=d.dump())
        reach(params, "rejected")
        return
    require(not must_reject(v), "a value that must be rejected was accepted", v=v)
    text = d.dump()
    modes = [{"whitespace-separates-paragraphs": False}]
    if not has_blank_continuation(v):
        modes.append(None)
    for strict in modes:
        ps = list(Deb822.iter_paragraphs(text, strict=strict))
        require(len(ps) == 1, "dump does not re-read as one paragraph", v=v, strict=strict, text=text, n=len(ps))
        require(list(ps[0].keys()) == names, "field names changed", v=v, strict=strict, text=text, got=list(ps[0].keys()))
        for other in ("A", "Z"):
            if other != key:
                require(ps[0][other] == d[other], "neighbour field changed", v=v, field=other, got=ps[0][other])
    reach(params, "accepted")


# ------------------------------------------------------------------ engine B
def lemma_validator_parser(params):
    from .. import re2smt as R
    S = R.Session(timeout_ms=60000)
    cex, verdicts = [], []
    dom = R.ranges_re([(32, 126), (9, 9), (13, 13)])
    dom_nocr = R.ranges_re([(32, 126), (9, 9)])
    # continuation lines the validator lets through: non-empty, first char blank; CR only as
    # part of the text (a CR ends the line for splitlines, so a validated line has no CR inside
    # except that the *dumped* physical line, split at '\n' only, may contain CRs)
    C = R.concat(R.chars(" \t"), R.star(dom))
    first = R.star(dom_nocr)
    try:
        single, multi = R.full(Deb822._single), R.full(Deb822._multi)
        multidata = R.full(Deb822._multidata)
    except R.NotEncodable as e:
        S.counts["not_encodable"] += 1
        return {"engine": "B", "verdict": "inconclusive", "reason": "not encodable: %s" % e, "queries": S.counts,
                "counterexamples": []}
    checks = [
        ("continuation line never parses as 'Key: value'", "disjoint", C, single),
        ("continuation line never parses as 'Key:'", "disjoint", C, multi),
        ("'K: '+first line parses as a field line", "subset", R.concat(R.lit("K: "), first),
         R.union(single, multi)),
        ("non-blank continuation line is continuation data", "subset",
         R.minus(R.concat(R.chars(" \t"), R.star(dom_nocr)), R.star(R.chars(" \t"))), multidata),
    ]
    for name, kind, a, b in checks:
        v, w = (S.disjoint(a, b, name) if kind == "disjoint" else S.subset(a, b, name))
        verdicts.append(v)
        if v == "fails":
            # turn the witness line into a value and let the property's own oracle decide
            if name.startswith("'K: '"):
                val = w[3:]
                shape = "x" * len(val)
                cex.append({"harness": "h_value", "params": {"shape": shape, "key": "K"}, "args": {"x": val},
                            "message": "lemma '%s' fails for %r" % (name, w)})
            else:
                shape = "xN" + "x" * len(w)
                cex.append({"harness": "h_value", "params": {"shape": shape, "key": "K"}, "args": {"x": "a" + w},
                            "message": "lemma '%s' fails for %r" % (name, w)})
    # bytes side: gpg armor and blank-line regexes on UTF-8 encoded ASCII lines
    try:
        gpg = R.match(Deb822._gpgre)
        blank_nw = R.full(Deb822._blank_line_no_whitespace)
        blank_w = R.full(Deb822._blank_line_whitespace)
        Cb = R.concat(R.chars(" \t"), R.star(R.ranges_re([(32, 126), (9, 9)])))
        for name, a, b in (("continuation line is never a PGP armor line", Cb, gpg),
                           ("continuation line is never an empty line", Cb, blank_nw),
                           ("non-blank continuation line is not a whitespace-only line",
                            R.minus(Cb, R.star(R.chars(" \t"))), blank_w)):
            v, w = S.disjoint(a, b, name)
            verdicts.append(v)
            if v == "fails":
                cex.append({"harness": "h_value", "params": {"shape": "xN" + "x" * len(w), "key": "K"}, "args": {"x": "a" + w},
                            "message": "lemma '%s' fails for %r" % (name, w)})
    except R.NotEncodable as e:
        S.counts["not_encodable"] += 1
        verdicts.append("not encodable")
    out = {"engine": "B", "counterexamples": cex, "samples": S.log, "queries": S.counts, "solver_s": round(S.solver_s, 3)}
    if cex:
        out.update(verdict="counterexample", reason=cex[0]["message"])
    elif all(v == "holds" for v in verdicts):
        out.update(verdict="confirmed", reason="%d lemmas unsat" % len(verdicts))
    else:
        out.update(verdict="inconclusive", reason=str(verdicts))
    return out


def partitions(tier, seed):
    import itertools
    P = [dict(name="lemma/validator-vs-parser", kind="py", func="lemma_validator_parser", params={}, budget=200,
              bounds="lines of any length over the domain alphabet")]
    q = tier == "quick"
    maxlen = 4 if q else 6
    for n in range(0, maxlen + 1):
        for shape in itertools.product("xN", repeat=n):
            shape = "".join(shape)
            if shape.count("N") > 2:
                continue
            for key in (("K",) if (q and n >= 3) else ("K", "New")):
                P.append(dict(name="value/%s/%s" % (shape or "empty", key), harness="h_value", params=dict(shape=shape, key=key),
                              budget=60 if q else 900, reach=[],
                              bounds="value of shape %r (N=newline, x=any of printable ASCII/tab/CR) assigned to %s" % (shape, key)))
    for origin in ORIGINS[1:]:
        for shape in (("xNx", "xNNx", "xN") if q else ("xNx", "xNNx", "xN", "N", "xNxNx", "NxNx", "xx")):
            P.append(dict(name="origin/%s/%s" % (origin, shape), harness="h_value", params=dict(shape=shape, key="K", origin=origin),
                          budget=60 if q else 600, reach=[], bounds="paragraph obtained as %r, value of shape %r assigned to K" % (origin, shape)))
    return P
