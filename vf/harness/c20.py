"""C20 -- the debtags database keeps its two indexes mutually inverse."""
from debian import debtags

from ..hx import assume, require, reach, Skip

MANIFEST = dict(
    engines="A",
    technique="symbolic execution (CrossHair+z3) of debtags.DB: the database layout, package/tag names (chosen by symbolic index from an alphabet with multi-character and prefix-related names), operation codes and operands are symbolic; after every step the two indexes are compared with a reference relation",
    text="Bounded model checking: from databases read from 0-3 lines (1-2 packages and 0-2 tags per line, names picked by symbolic indices) and 1-2 (thorough: 3) operations with symbolic code among insert, the six filters, the two choose variants, facet_collection, reverse, reverse_copy and copy, the package->tags and tag->packages indexes are mutually inverse and every query method agrees with a reference set of pairs. 'confirmed' = every solver-feasible combination within the bound was executed. After every step, queries for absent names answer empty and leave counts and iterators unchanged.",
    note="Names are drawn from a concrete alphabet by symbolic index (fully symbolic strings are realised by CrossHair when hashed into the real dict/set objects), so this is solver-driven bounded enumeration of layouts x histories. Distinct package names per database (the property's domain); tags follow the facet::name form or are single characters.",
)

FUNCTIONS = ["debian.debtags.parse_tags", "debian.debtags.read_tag_database_both_ways", "debian.debtags.reverse",
             "debian.debtags.DB.insert", "debian.debtags.DB.reverse", "debian.debtags.DB.facet_collection",
             "debian.debtags.DB.copy", "debian.debtags.DB.reverse_copy", "debian.debtags.DB.choose_packages",
             "debian.debtags.DB.choose_packages_copy", "debian.debtags.DB.filter_packages",
             "debian.debtags.DB.filter_packages_copy", "debian.debtags.DB.filter_packages_tags",
             "debian.debtags.DB.filter_packages_tags_copy", "debian.debtags.DB.filter_tags", "debian.debtags.DB.filter_tags_copy",
             "debian.debtags.DB.tags_of_package", "debian.debtags.DB.packages_of_tag", "debian.debtags.DB.card",
             "debian.debtags.DB.package_count", "debian.debtags.DB.tag_count"]
STUBS = []
ASSUMPTIONS = ["package names are distinct within a database and inserted packages are fresh (the property's domain)",
               "tags are 'facet::name' or a single character (facet_collection is only specified for such tags)",
               "packages left without any tag (and, after reverse, tags left without any package) may or may not be listed: pairs are compared, counts must equal the number of listed items and cover the pairs"]
OUTSIDE = ["more than 3 lines / 3 operations", "qread/qwrite (pickle), dump (prints)"]
GROUP_REACH = {"ins": ["insert"], "filt": ["filter"], "choose": [], "derive": ["reverse"]}

PKGS = ["a", "ab", "b", "x-1"]
TAGS = ["f::a", "f::b", "g::a", "h"]

# line layouts: list of (package slots, tag slots); slots index the symbolic choices
LAYOUTS = {
    "empty": [],
    "1x1": [((0,), (0,))],
    "1x2": [((0,), (0, 1))],
    "2x1": [((0, 1), (0,))],
    "notags": [((0,), ())],
    "2lines": [((0,), (0, 1)), ((1,), (1,))],
    "2lines-shared": [((0, 1), (0,)), ((2,), (0, 1))],
    "3lines": [((0,), (0,)), ((1,), (1,)), ((2,), (0, 1))],
    "shared-multi": [((0,), (0,)), ((1, 2), (0, 1))],          # a multi-package line re-using an earlier tag
}


def render(layout, pk, tg):
    lines, model = [], {}
    for ps, ts in layout:
        names = [PKGS[pk[i]] for i in ps]
        tags = [TAGS[tg[i]] for i in ts]
        if tags:
            lines.append("%s: %s\n" % (", ".join(names), ", ".join(tags)))
        else:
            lines.append("%s\n" % ", ".join(names))
        for n in names:
            model[n] = set(tags)
    return lines, model


def pairs_of(model):
    return {(p, t) for p, ts in model.items() for t in ts}


def check_db(db, model, what):
    want = pairs_of(model)
    got_fwd = {(p, t) for p in db.iter_packages() for t in db.tags_of_package(p)}
    got_rev = {(p, t) for t in db.iter_tags() for p in db.packages_of_tag(t)}
    require(got_fwd == want, "package->tags index differs from the reference after " + what, got=sorted(got_fwd), want=sorted(want))
    require(got_rev == want, "tag->packages index differs from the reference after " + what, got=sorted(got_rev), want=sorted(want))
    for (p, t) in want:
        require(db.has_package(p) and db.has_tag(t), "has_package/has_tag after " + what)
        require(t in db.tags_of_package(p) and p in db.packages_of_tag(t), "mutual inverse after " + what)
    for t in {t for _, t in want}:
        require(db.card(t) == len({p for p, tt in want if tt == t}), "card(%s) after %s" % (t, what))
    ntg = len(list(db.iter_tags()))
    require(db.tag_count() == ntg and ntg >= len({t for _, t in want}), "tag_count after " + what, got=db.tag_count())
    npk = len(list(db.iter_packages()))
    require(db.package_count() == npk and npk >= len({p for p, _ in want}), "package_count after " + what, got=db.package_count())
    got_pt = {(p, t) for p, ts in db.iter_packages_tags() for t in ts}
    got_tp = {(p, t) for t, ps in db.iter_tags_packages() for p in ps}
    require(got_pt == want and got_tp == want, "iter_packages_tags / iter_tags_packages after " + what)
    # queries for names the collection does not hold: empty answers, and a query is not an edit
    snap = (db.tag_count(), db.package_count(), sorted(db.iter_tags()), sorted(db.iter_packages()))
    for name in PKGS + TAGS + ["zz", "f", "g"]:
        if not db.has_package(name):
            require(len(db.tags_of_package(name)) == 0, "tags of an absent package after " + what, name=name)
        if not db.has_tag(name):
            require(len(db.packages_of_tag(name)) == 0 and db.card(name) == 0, "packages of an absent tag after " + what, name=name)
    snap2 = (db.tag_count(), db.package_count(), sorted(db.iter_tags()), sorted(db.iter_packages()))
    require(snap2 == snap, "queries for absent names changed the collection after " + what, before=snap, after=snap2)


def facet(t):
    return t.split(":")[0] if ":" in t and not t.startswith(":") else t


NOPS = 14
OPNAMES = ["insert", "filter_packages", "filter_packages_copy", "filter_tags", "filter_tags_copy",
           "filter_packages_tags", "filter_packages_tags_copy", "choose_packages", "choose_packages_copy",
           "facet_collection", "reverse", "reverse_copy", "copy", "read-again"]
REREAD = [["b: g::a\n"], ["a, x-1: h\n", "ab: f::b, h\n"], []]


def apply_op(params, db, model, op, x, y):
    """Returns (new db, new model, swapped?)  x, y: small symbolic operands."""
    if op == 0:
        name = PKGS[x]
        assume(name not in model)
        universe = [TAGS[0], TAGS[1], PKGS[0], PKGS[1]]          # after reverse() package names act as tags
        tags = {universe[i] for i in range(4) if (y >> i) & 1}
        multi_new = len(name) > 1 and any(not db.has_tag(t) for t in tags)
        if multi_new and "insert-new-tag-multichar" in params.get("known", []):
            raise Skip("known finding class insert-new-tag-multichar")
        db.insert(name, tags)
        m = dict(model)
        m[name] = set(tags)
        reach(params, "insert")
        return db, m
    if op in (1, 2):
        f = lambda p: p < PKGS[x]          # noqa: E731
        r = db.filter_packages(f) if op == 1 else db.filter_packages_copy(f)
        reach(params, "filter")
        return r, {p: set(ts) for p, ts in model.items() if f(p)}
    if op in (3, 4):
        f = lambda t: t != TAGS[x]         # noqa: E731
        r = db.filter_tags(f) if op == 3 else db.filter_tags_copy(f)
        return r, {p: {t for t in ts if f(t)} for p, ts in model.items()}
    if op in (5, 6):
        f = lambda pt: len(pt[1]) > (x % 2) and pt[0] != PKGS[y % len(PKGS)]      # noqa: E731
        r = db.filter_packages_tags(f) if op == 5 else db.filter_packages_tags_copy(f)
        return r, {p: set(ts) for p, ts in model.items() if f((p, ts))}
    if op in (7, 8):
        chosen = [PKGS[i] for i in range(len(PKGS)) if (y >> i) & 1]
        chosen = chosen + (["zz"] if op == 7 and x % 2 else [])
        if op == 8:
            chosen = [p for p in chosen if db.has_package(p)]   # the copy variant raises KeyError otherwise
        r = db.choose_packages(chosen) if op == 7 else db.choose_packages_copy(chosen)
        return r, {p: set(model[p]) for p in chosen if p in model}
    if op == 9:
        for ts in model.values():
            for t in ts:
                assume("::" in t or len(t) == 1, "facet_collection is specified for facet::name tags")
        multi = any(len(p) > 1 and ts for p, ts in model.items())
        if multi and "insert-new-tag-multichar" in params.get("known", []):
            raise Skip("known finding class insert-new-tag-multichar (facet_collection inserts)")
        r = db.facet_collection()
        reach(params, "facet")
        return r, {p: {facet(t) for t in ts} for p, ts in model.items()}
    if op in (10, 11):
        r = db.reverse() if op == 10 else db.reverse_copy()
        m = {}
        for p, ts in model.items():
            for t in ts:
                m.setdefault(t, set()).add(p)
        reach(params, "reverse")
        return r, m
    if op == 13:
        # reading another collection into the same object replaces the previous content
        lines = REREAD[x % len(REREAD)]
        db.read(iter(lines))
        m = {}
        for l in lines:
            ps, ts = l.strip().split(": ")
            for p in ps.split(", "):
                m[p] = set(ts.split(", "))
        reach(params, "reread")
        return db, m
    r = db.copy()
    return r, {p: set(ts) for p, ts in model.items()}


def h_db(params, p0: int, p1: int, p2: int, t0: int, t1: int,
         op1: int, x1: int, y1: int, op2: int, x2: int, y2: int, op3: int, x3: int, y3: int):
    layout = LAYOUTS[params["layout"]]
    nsteps = params["steps"]
    np_ = 1 + max([i for ps, _ in layout for i in ps], default=-1)
    nt_ = 1 + max([i for _, ts in layout for i in ts], default=-1)
    pk, tg = [p0, p1, p2], [t0, t1]
    for i in range(3):
        assume(0 <= pk[i] < len(PKGS)) if i < np_ else assume(pk[i] == 0)
    for i in range(2):
        assume(0 <= tg[i] < len(TAGS)) if i < nt_ else assume(tg[i] == 0)
    # thinning for the quick tier: only the first `free` slots vary, the others are pinned
    free = params.get("free", 3)
    if np_ >= 2 and free < 2:
        assume(pk[1] == (pk[0] + 1) % len(PKGS))
    if np_ >= 3 and free < 3:
        assume(pk[2] == (pk[0] + 2) % len(PKGS))
    if nt_ >= 2 and free < 2:
        assume(tg[1] == (tg[0] + 1) % len(TAGS))
    # distinct package names; distinct tags on a line
    if np_ >= 2:
        assume(pk[0] != pk[1])
    if np_ >= 3:
        assume((pk[0] != pk[2]) & (pk[1] != pk[2]))
    if nt_ >= 2:
        assume(tg[0] != tg[1])
    ops = [(op1, x1, y1), (op2, x2, y2), (op3, x3, y3)]
    for k, (op, x, y) in enumerate(ops):
        if k < nsteps:
            assume(0 <= op < NOPS)
            assume(0 <= x < (len(PKGS) if k == 0 else 2))
            assume(0 <= y < (16 if (k == 0 or op == 0) else 4))
            if op not in (0, 5, 6, 7, 8):
                assume(y == 0)
            if op in (9, 10, 11, 12):
                assume(x == 0)
            if op == 13:
                assume(x < 3)
            if "ops" in params:
                assume(op in params["ops"])
            if k == 0 and "first" in params:
                assume(op in params["first"])
        else:
            assume((op == 0) & (x == 0) & (y == 0))
    lines, model = render(layout, pk, tg)
    db = debtags.DB()
    db.read(iter(lines))
    check_db(db, model, "read")
    history = []
    for k in range(nsteps):
        op, x, y = ops[k]
        prev_db, prev_model = db, {p: set(ts) for p, ts in model.items()}
        db, model = apply_op(params, db, model, op, x, y)
        check_db(db, model, "%s (step %d)" % (OPNAMES[op], k + 1))
        if db is not prev_db:
            history.append((prev_db, prev_model, OPNAMES[op]))
        # collections from which this one was derived by a *_copy operation must not be affected by
        # later edits of the derived one (and must stay internally consistent in any case)
        for (odb, omodel, how) in history:
            # the sharing variants (filter_*, choose_packages, reverse) document that they share their
            # sets with the source: editing the derived collection may then change the source
            if not (how.endswith("_copy") or how == "copy"):
                continue
            fwd = {(p, t) for p in odb.iter_packages() for t in odb.tags_of_package(p)}
            rev = {(p, t) for t in odb.iter_tags() for p in odb.packages_of_tag(t)}
            require(fwd == rev, "the source of a copying derivation is no longer self-consistent after step %d" % (k + 1),
                    derived_by=how, fwd=sorted(fwd), rev=sorted(rev))
            require(fwd == pairs_of(omodel), "a copying derivation is not independent of its source", derived_by=how,
                    got=sorted(fwd), want=sorted(pairs_of(omodel)))


def partitions(tier, seed):
    P = []
    q = tier == "quick"
    groups = [("ins", [0]), ("filt", [1, 2, 3, 4, 5, 6]), ("choose", [7, 8]), ("derive", [9, 10, 11, 12, 13])]
    for lay in (("empty", "1x2", "2x1", "2lines", "shared-multi") if q else LAYOUTS):
        for gname, ops in groups:
            P.append(dict(name="step1/%s/%s" % (lay, gname), harness="h_db", params=dict(layout=lay, steps=1, ops=ops, free=1 if q else 3),
                          budget=80 if q else 900,
                          reach=(GROUP_REACH[gname] if lay != "empty" or gname == "ins" else []) + (["facet"] if gname == "derive" and lay in ("1x2", "1x1") else []),
                          bounds="layout %s, one operation of group %s, all name choices" % (lay, gname)))
    for lay in (("1x1", "notags", "2x1") if q else ("1x1", "1x2", "2x1", "notags", "2lines", "shared-multi")):
        for gname, ops in ([("ins", [0]), ("filt-a", [1, 2, 3]), ("filt-b", [4, 5, 6]), ("choose", [7, 8]), ("facet", [9]), ("rev", [10, 11, 12, 13])]):
            if q and lay == "2x1" and gname != "rev":
                continue
            P.append(dict(name="step2/%s/%s-first" % (lay, gname), harness="h_db",
                          params=dict(layout=lay, steps=2, first=ops, free=1 if q else 2), budget=70 if q else 1800, reach=[],
                          bounds="layout %s, two operations (first from the group, second any code with operands x<2, y<4)" % lay))
    return P
