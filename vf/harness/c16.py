"""C16 -- copyright: a file resolves to the last Files paragraph whose glob matches it."""
import itertools
import random

from debian import copyright as dc
from debian.copyright import Copyright, FilesParagraph, License, MachineReadableFormatError, globs_to_re

from ..hx import assume, require, reach, Skip

MANIFEST = dict(
    engines="AB",
    technique="regex-to-SMT (z3 regular expressions): the pattern object actually compiled by globs_to_re for each generated glob list is translated and compared, as a language over file names of unbounded length, with the union of the reference glob languages; CrossHair symbolic execution of FilesParagraph.matches (pattern cache) and Copyright.find_files_paragraph with symbolic file names",
    text="Engine B: for every list of 1-2 (thorough: up to 3) globs built from up to 3 (thorough: 4) tokens out of '*', '?', the three legal escapes, and literals including every ASCII regex metacharacter, '/', '.', and a non-ASCII letter, the set of ALL file names (any length, any characters up to U+2FFFF, newlines included) matched by the real compiled pattern equals the reference glob semantics; illegal escapes must raise the format error. Engine A: pattern cache invalidation and last-match-wins over 2-3 Files paragraphs for all file names up to 3 characters. All single globs of up to 5 (thorough: 6) tokens over { } , 2 a * (regex repetition syntax is plain text in a glob); illegal escapes next to '%' and braces; any exception type other than the format error from the compile step is a counterexample.",
    note="Trusted: z3's regex theory; the re->z3 translation (validated against CPython's re at selftest); the reference glob matcher in this file. A KNOWN FINDING (unanchored non-last alternatives; pinned by test_multi_literal/test_multi_wildcard) is reported as KNOWN-FINDING and its class is excluded from the violation queries by an explicit language constraint.",
)

FUNCTIONS = ["debian.copyright.globs_to_re", "debian.copyright.FilesParagraph.files_pattern", "debian.copyright.FilesParagraph.__init__",
             "debian.copyright.FilesParagraph.matches", "debian.copyright.Copyright.find_files_paragraph"]
STUBS = []
ASSUMPTIONS = ["globs are non-empty and contain no whitespace (they come from a whitespace-separated field)",
               "engine B: file names over code points <= U+2FFFF"]
OUTSIDE = ["glob lists longer than 3 / globs longer than 4 tokens", "Files-Excluded/Files-Included"]

KNOWN_CLASS = "glob-nonlast-prefix"


# ------------------------------------------------------------------ reference glob semantics
def tokenize(glob):
    """-> list of ('star',) ('any',) ('lit', c); raises ValueError on an illegal escape."""
    out, i, n = [], 0, len(glob)
    while i < n:
        c = glob[i]
        i += 1
        if c == "*":
            out.append(("star",))
        elif c == "?":
            out.append(("any",))
        elif c == "\\":
            if i >= n:
                raise ValueError("trailing backslash")
            c = glob[i]
            i += 1
            if c not in "\\?*":
                raise ValueError("illegal escape")
            out.append(("lit", c))
        else:
            out.append(("lit", c))
    return out


def glob_match(toks, name):
    """Whole-name match of one tokenised glob (dynamic programming, no regex)."""
    n = len(name)
    cur = {0}
    for t in toks:
        nxt = set()
        for i in cur:
            if t[0] == "star":
                nxt |= set(range(i, n + 1))
            elif t[0] == "any":
                if i < n:
                    nxt.add(i + 1)
            else:
                if i < n and name[i] == t[1]:
                    nxt.add(i + 1)
        cur = nxt
        if not cur:
            return False
    return n in cur


def ref_matches(globs, name):
    return any(glob_match(tokenize(g), name) for g in globs)


def in_known_class(globs, name):
    """impl matches although no glob matches the whole name, because a non-last glob matches a
    proper prefix of it (only the last alternative of the generated regex is end-anchored)."""
    if ref_matches(globs, name):
        return False
    for g in globs[:-1]:
        toks = tokenize(g)
        for k in range(0, len(name)):
            if glob_match(toks, name[:k]):
                return True
    return False


def _paragraph(globs):
    return FilesParagraph.create(files=list(globs), copyright="c", license=License("x"))


def h_glob(params, globs: list, name: str):
    """Replay harness (public API): FilesParagraph.matches vs the reference."""
    try:
        for g in globs:
            tokenize(g)
        legal = True
    except ValueError:
        legal = False
    p = _paragraph(globs)
    try:
        got = p.matches(name)
    except MachineReadableFormatError:
        require(not legal, "legal glob list rejected", globs=globs)
        return
    require(legal, "illegal escape accepted", globs=globs)
    want = ref_matches(globs, name)
    if got != want and KNOWN_CLASS in params.get("known", []) and got and in_known_class(globs, name):
        raise Skip("known finding class " + KNOWN_CLASS)
    require(got == want, "matches() differs from glob semantics", globs=globs, name=name, got=got, want=want)


# catalogue for engine A (concrete globs, symbolic names)
CATALOGUE = [
    ["*"], ["a?"], ["a*b"], ["\\*"], ["\\\\?"], ["a.b"], ["*.c", "d/*"], ["x", "x*y"], ["?", "??", "a*"],
    ["a+"], ["[a]"], ["a|b"], ["(a)"], ["a\\?*"],
]


def h_name(params, name: str):
    """Concrete glob list, symbolic file name (any characters)."""
    globs = CATALOGUE[params["case"]]
    assume(len(name) == params["len"])
    p = _paragraph(globs)
    got = p.matches(name)
    want = ref_matches(globs, name)
    if got != want and KNOWN_CLASS in params.get("known", []) and got and in_known_class(globs, name):
        raise Skip("known finding class")
    require(got == want, "matches() differs from glob semantics", globs=globs, name=name, got=got, want=want)
    # pattern cache: change the Files field, the answer must follow
    globs2 = CATALOGUE[(params["case"] + 3) % len(CATALOGUE)]
    p.files = list(globs2)
    got2 = p.matches(name)
    want2 = ref_matches(globs2, name)
    if got2 != want2 and KNOWN_CLASS in params.get("known", []) and got2 and in_known_class(globs2, name):
        raise Skip("known finding class")
    require(got2 == want2, "stale pattern cache after changing Files", globs=globs2, name=name, got=got2, want=want2)
    p.files = list(globs)
    require(p.matches(name) == got, "answer changed after restoring Files", globs=globs, name=name)


ILLEGAL = [["src\\main.c"], ["a", "b\\"], ["\\x*"], ["ok", "\\."]]


def h_illegal(params, name: str):
    """An illegal escape is reported on *every* query (no stale pattern after the first error), and
    the paragraph answers correctly again once Files is legal."""
    globs = ILLEGAL[params["case"]]
    assume(len(name) == params["len"])
    p = _paragraph(["*"])
    prior = params.get("prior", False)
    if prior:
        require(p.matches(name) is True, "'*' must match everything", name=name)
    p.files = list(globs)
    for attempt in (1, 2, 3):
        try:
            r = p.matches(name)
        except MachineReadableFormatError:
            continue
        require(False, "illegal escape not reported on query %d (answer %r from a stale pattern)" % (attempt, r), globs=globs, name=name)
    legal = CATALOGUE[params["case"] % len(CATALOGUE)]
    p.files = list(legal)
    got = p.matches(name)
    want = ref_matches(legal, name)
    if got != want and KNOWN_CLASS in params.get("known", []) and got and in_known_class(legal, name):
        raise Skip("known finding class")
    require(got == want, "wrong answer after replacing an illegal Files value", globs=legal, name=name, got=got, want=want)


def h_build(params, name: str, early: bool, n_lic: int):
    """Look-ups interleaved with add_files_paragraph/add_license_paragraph on one object."""
    from debian.copyright import LicenseParagraph
    assume(len(name) == params["len"])
    assume(0 <= n_lic <= 1)
    doc = DOCS[params["doc"]]
    c = Copyright()
    if n_lic:
        c.add_license_paragraph(LicenseParagraph.create(License("L", "text")))
    if early:
        require(c.find_files_paragraph(name) is None, "a paragraph was found in a document without Files paragraphs")
        require(list(c.all_files_paragraphs()) == [], "all_files_paragraphs on an empty document")
    added = []
    for i, globs in enumerate(doc):
        p = _paragraph(globs)
        c.add_files_paragraph(p)
        added.append(p)
        want = None
        for j, g in enumerate(doc[:i + 1]):
            if ref_matches(g, name):
                want = j
            elif KNOWN_CLASS in params.get("known", []) and in_known_class(g, name):
                raise Skip("known finding class")
        got = c.find_files_paragraph(name)
        require(list(c.all_files_paragraphs()) == added, "all_files_paragraphs after add_files_paragraph")
        if want is None:
            require(got is None, "a paragraph was returned although none matches", name=name, step=i)
        else:
            require(got is added[want], "not the last matching paragraph after add_files_paragraph", name=name, step=i, want=want,
                    got=None if got is None else added.index(got))


DOCS = [
    [["*"], ["src/*"], ["src/a?"]],
    [["a*"], ["*b"]],
    [["x"], ["y"], ["x"]],
    [["d/*"], ["*"]],
]


def h_find(params, name: str):
    """find_files_paragraph returns the last matching Files paragraph, or None."""
    doc = DOCS[params["doc"]]
    assume(len(name) == params["len"])
    text = "Format: https://www.debian.org/doc/packaging-manuals/copyright-format/1.0/\n"
    for i, globs in enumerate(doc):
        text += "\nFiles: %s\nCopyright: c%d\nLicense: L%d\n" % (" ".join(globs), i, i)
        if i == 0:
            text += "\nLicense: L0\n text\n"          # a stand-alone License paragraph in between
    c = Copyright(text.splitlines(True))
    fps = list(c.all_files_paragraphs())
    require(len(fps) == len(doc), "paragraph count")
    want = None
    for i, globs in enumerate(doc):
        if ref_matches(globs, name):
            want = i
        elif KNOWN_CLASS in params.get("known", []) and in_known_class(globs, name):
            raise Skip("known finding class")
    got = c.find_files_paragraph(name)
    if want is None:
        require(got is None, "a paragraph was returned although none matches", name=name, got=got and got.files)
        reach(params, "none")
    else:
        require(got is fps[want], "not the last matching paragraph", name=name, want=want,
                got=None if got is None else fps.index(got))
        reach(params, "found")


# ------------------------------------------------------------------ engine B
TOK_Q = ["*", "?", "\\*", "\\\\", "a", ".", "+", "é"]
TOK_BRACE = ["{", "}", ",", "2", "a", "*"]       # '{m,n}' is a repetition in a regex and plain text in a glob
TOK_T = ["*", "?", "\\*", "\\?", "\\\\", "a", "b", "/", ".", "+", "^", "$", "{", "[", "(", "|", ")", "]", "}", "é", "-"]


def _ref_lang(R, glob):
    parts = []
    for t in tokenize(glob):
        if t[0] == "star":
            parts.append(R.SIGMA_STAR)
        elif t[0] == "any":
            parts.append(R.ANYCHAR)
        else:
            parts.append(R.lit(t[1]))
    return R.concat(*parts)


def _lists(params):
    rnd = random.Random(params["seed"] * 7919 + params["shard"])
    toks = params["tokens"]
    singles = ["".join(t) for k in range(1, params["maxtok"] + 1) for t in itertools.product(toks, repeat=k)]
    out = []
    if params["mode"] == "single":
        out = [[g] for g in singles]
    elif params["mode"] == "pairs":
        short = ["".join(t) for k in range(1, params["pairtok"] + 1) for t in itertools.product(toks, repeat=k)]
        out = [[a, b] for a in short for b in short]
    elif params["mode"] == "random":
        for _ in range(params["count"]):
            n = rnd.choice((2, 2, 3))
            out.append([rnd.choice(singles) for _ in range(n)])
    elif params["mode"] == "illegal":
        bad = ["\\", "a\\", "\\a", "\\.", "*\\", "\\n", "\\é", "a\\b", "\\\\\\",
               # with characters that are special to string formatting / regex compilation (the error path builds a message)
               "%s\\.", "\\%", "%d\\x", "100%\\", "{0}\\a", "{\\", "(\\[", "%(x)s\\-"]
        out = [[b] for b in bad] + [["a", b] for b in bad] + [[b, "a"] for b in bad]
    shard, nsh = params["shard"], params["nshards"]
    return [l for i, l in enumerate(out) if i % nsh == shard]


def lemma_globs(params):
    from .. import re2smt as R
    import z3
    S = R.Session(timeout_ms=20000, seed=params.get("seed", 0))
    cex, samples = [], []
    nlists = 0
    known_seen = 0
    inconclusive = 0
    known_on = KNOWN_CLASS in params.get("known", [])
    for globs in _lists(params):
        nlists += 1
        try:
            for g in globs:
                tokenize(g)
            legal = True
        except ValueError:
            legal = False
        try:
            pat = globs_to_re(globs)
        except MachineReadableFormatError:
            if legal:
                cex.append({"harness": "h_glob", "params": {}, "args": {"globs": globs, "name": "a"},
                            "message": "legal glob list %r rejected" % (globs,)})
            S.counts["unsat"] += 1      # decided without a solver call (exception path)
            continue
        except Exception as e:      # noqa: BLE001  (any other exception type is a failure of the compile step)
            cex.append({"harness": "h_glob", "params": {}, "args": {"globs": globs, "name": "a"},
                        "message": "glob list %r: globs_to_re raised %s: %s" % (globs, type(e).__name__, e)})
            continue
        if not legal:
            cex.append({"harness": "h_glob", "params": {}, "args": {"globs": globs, "name": "a"},
                        "message": "illegal escape in %r accepted" % (globs,)})
            continue
        try:
            impl = R.match(pat)
        except R.NotEncodable as e:
            S.counts["not_encodable"] += 1
            inconclusive += 1
            continue
        refs = [_ref_lang(R, g) for g in globs]
        ref = R.union(*refs) if len(refs) > 1 else refs[0]
        x = S.x
        in_impl, in_ref = z3.InRe(x, R.to_z3(impl)), z3.InRe(x, R.to_z3(ref))
        # (1) a name the reference matches but the implementation does not
        r, w = S.witness(in_ref, z3.Not(in_impl))
        if r == "sat":
            cex.append({"harness": "h_glob", "params": {}, "args": {"globs": globs, "name": R.decode_z3(w)},
                        "message": "missed match: %r should match %r" % (globs, R.decode_z3(w))})
        elif r != "unsat":
            inconclusive += 1
        # (2) a name the implementation matches but the reference does not, outside the known class
        extra = []
        if known_on and len(globs) > 1:
            prefix_class = R.concat(R.union(*refs[:-1]) if len(refs) > 2 else refs[0], R.plus(R.ANYCHAR))
            extra.append(z3.Not(z3.InRe(x, R.to_z3(prefix_class))))
        r, w = S.witness(in_impl, z3.Not(in_ref), *extra)
        if r == "sat":
            cex.append({"harness": "h_glob", "params": {}, "args": {"globs": globs, "name": R.decode_z3(w)},
                        "message": "spurious match: %r must not match %r" % (globs, R.decode_z3(w))})
        elif r != "unsat":
            inconclusive += 1
        # (3) informational: the known class is still inhabited for this list?
        if known_on and len(globs) > 1 and known_seen < 3:
            r, w = S.witness(in_impl, z3.Not(in_ref))
            if r == "sat":
                known_seen += 1
                samples.append({"known_class_witness": {"globs": globs, "name": R.decode_z3(w)}})
        if len(samples) < 5 and nlists % 97 == 1:
            samples.append({"globs": globs, "regex": pat.pattern})
        if len(cex) >= 5:
            break
    out = {"engine": "B", "counterexamples": cex, "samples": samples, "queries": S.counts,
           "solver_s": round(S.solver_s, 2), "lists": nlists}
    if cex:
        out.update(verdict="counterexample", reason=cex[0]["message"])
    elif inconclusive:
        out.update(verdict="inconclusive", reason="%d queries unknown/not encodable out of %d lists" % (inconclusive, nlists))
    else:
        out.update(verdict="confirmed", reason="%d glob lists: all queries unsat" % nlists)
    return out


def partitions(tier, seed):
    P = []
    q = tier == "quick"
    nsh = 16
    for sh in range(nsh):
        P.append(dict(name="globs/single/%d" % sh, kind="py", func="lemma_globs",
                      params=dict(mode="single", tokens=TOK_T, maxtok=4 if q else 5, shard=sh, nshards=nsh, seed=seed),
                      budget=300 if q else 3000, bounds="every single glob of <= %d tokens over %d token kinds; all file names" % (4 if q else 5, len(TOK_T))))
        P.append(dict(name="globs/pairs/%d" % sh, kind="py", func="lemma_globs",
                      params=dict(mode="pairs", tokens=TOK_T[:12] if q else TOK_T, pairtok=2, maxtok=2, shard=sh, nshards=nsh, seed=seed),
                      budget=300 if q else 3000, bounds="every ordered pair of globs of <= 2 tokens over %d token kinds; all file names" % (12 if q else len(TOK_T))))
        P.append(dict(name="globs/pairs1/%d" % sh, kind="py", func="lemma_globs",
                      params=dict(mode="pairs", tokens=TOK_T, pairtok=1, maxtok=1, shard=sh, nshards=nsh, seed=seed),
                      budget=300, bounds="every ordered pair of one-token globs over %d token kinds" % len(TOK_T)))
        P.append(dict(name="globs/random/%d" % sh, kind="py", func="lemma_globs",
                      params=dict(mode="random", tokens=TOK_T, maxtok=4 if q else 5, count=1000 if q else 20000, shard=0, nshards=1, seed=seed * 100 + sh),
                      budget=300 if q else 3000, bounds="seeded lists of 2-3 globs of <= %d tokens; all file names" % (4 if q else 5)))
    for sh in range(4):
        P.append(dict(name="globs/braces/%d" % sh, kind="py", func="lemma_globs",
                      params=dict(mode="single", tokens=TOK_BRACE, maxtok=5 if q else 6, shard=sh, nshards=4, seed=seed), budget=300 if q else 3000,
                      bounds="every single glob of <= %d tokens over %r; all file names" % (5 if q else 6, TOK_BRACE)))
    P.append(dict(name="globs/illegal", kind="py", func="lemma_globs",
                  params=dict(mode="illegal", tokens=TOK_T, maxtok=1, shard=0, nshards=1, seed=seed), budget=60,
                  bounds="glob lists with an illegal escape must raise"))
    for case in (range(0, len(CATALOGUE), 2) if q else range(len(CATALOGUE))):
        for ln in ((0, 1, 2) if q else (0, 1, 2, 3, 4)):
            P.append(dict(name="name/case%d/len%d" % (case, ln), harness="h_name", params=dict(case=case, len=ln),
                          budget=60 if q else 900, bounds="globs %r (then %r): all file names of length %d" % (CATALOGUE[case], CATALOGUE[(case + 3) % len(CATALOGUE)], ln)))
    for case in range(len(ILLEGAL)):
        for prior in (False, True):
            for ln in ((1,) if q else (0, 1, 2, 3)):
                P.append(dict(name="illegal/case%d/%s/len%d" % (case, "prior" if prior else "fresh", ln), harness="h_illegal",
                              params=dict(case=case, prior=prior, len=ln), budget=60 if q else 600, reach=[],
                              bounds="Files %r queried three times with all names of length %d" % (ILLEGAL[case], ln)))
    for d in range(len(DOCS)):
        for ln in ((1,) if q else (0, 1, 2, 3)):
            P.append(dict(name="build/doc%d/len%d" % (d, ln), harness="h_build", params=dict(doc=d, len=ln), budget=60 if q else 600, reach=[],
                          bounds="document %d built with add_files_paragraph, look-ups before/after each step, names of length %d" % (d, ln)))
    for d in range(len(DOCS)):
        for ln in ((1, 2) if q else (0, 1, 2, 3, 4, 5)):
            P.append(dict(name="find/doc%d/len%d" % (d, ln), harness="h_find", params=dict(doc=d, len=ln),
                          budget=60 if q else 900, reach=[], bounds="document %d: all file names of length %d" % (d, ln)))
    return P
