"""C09 -- Deb822 mappings stay ordered, case-insensitive, case-preserving in any history."""
from debian.deb822 import Deb822

from ..hx import assume, require, reach, Skip

MANIFEST = dict(
    engines="A",
    technique="symbolic execution (CrossHair+z3) of Deb822Dict/OrderedSet/LinkedList: initial state, operation codes and key operands are symbolic integers (keys are picked by symbolic index from an alphabet with case variants); after every step the mapping is compared with a list-of-pairs reference model",
    text="Bounded model checking of operation histories: from every state built by 0-3 insertions (or dict-initialised / parsed paragraphs), every sequence of 1-2 (thorough: 3) operations among set, delete, get, in, order_first/last/before/after, sort_fields, copy and dump->parse with all key operands leaves keys, first-insertion spelling, order, values, len and the dump equal to the reference model; missing keys raise KeyError and self-relative reordering raises ValueError with the mapping unchanged. 'confirmed' = all solver-feasible (state, history) combinations within the bound were executed.",
    note="Keys are drawn from a concrete alphabet containing case variants by symbolic index: fully symbolic key strings are realised when hashed (str.lower + hash are C-level), so this is solver-driven bounded enumeration of histories, plus one partition with a fully symbolic one-character key. When both KeyError and ValueError apply (order_before(k, k') with k ~ k' both absent) either exception is accepted. _parsed-backed dictionaries (apt_pkg) are outside.",
)

FUNCTIONS = ["debian.deb822.Deb822Dict.__setitem__", "debian.deb822.Deb822Dict.__getitem__", "debian.deb822.Deb822Dict.__delitem__",
             "debian.deb822.Deb822Dict.__contains__", "debian.deb822.Deb822Dict.__iter__", "debian.deb822.Deb822Dict.__len__",
             "debian.deb822.Deb822Dict.order_first", "debian.deb822.Deb822Dict.order_last", "debian.deb822.Deb822Dict.order_before",
             "debian.deb822.Deb822Dict.order_after", "debian.deb822.Deb822Dict.sort_fields", "debian.deb822.Deb822Dict.copy",
             "debian._util._CaseInsensitiveString.__new__", "debian._util._CaseInsensitiveString.__eq__",
             "debian._util.OrderedSet.add", "debian._util.OrderedSet.remove", "debian._util.OrderedSet._reorder",
             "debian._util.OrderedSet.order_before", "debian._util.OrderedSet.order_after",
             "debian._util.LinkedList.append", "debian._util.LinkedList.insert_at_head", "debian._util.LinkedList.insert_before",
             "debian._util.LinkedList.insert_after", "debian._util.LinkedList.remove_node", "debian._util.LinkedListNode.remove"]
STUBS = []
ASSUMPTIONS = ["keys come from the alphabet %r" % (["a", "A", "b", "B-c", "b-C", "Xy"],),
               "when a reorder is both self-relative and on a missing key, KeyError or ValueError is accepted"]
OUTSIDE = ["more than 3 initial keys / 3 operations", "dictionaries backed by an apt_pkg section"]

KEYS = ["a", "A", "b", "B-c", "b-C", "Xy"]
NOPS = 11
OPN = ["set", "del", "get", "in", "order_first", "order_last", "order_before", "order_after", "sort_fields", "copy", "dump-parse"]


def find(model, k):
    for i, (s, _) in enumerate(model):
        if s.lower() == k.lower():
            return i
    return -1


def render(model):
    out = ""
    for s, v in model:
        out += ("%s:%s\n" if (v == "" or v.startswith("\n")) else "%s: %s\n") % (s, v)
    return out


def check(d, model, what):
    require(list(d) == [s for s, _ in model], "key order/spelling after " + what, got=list(d), want=[s for s, _ in model])
    require(list(d.keys()) == [s for s, _ in model], "keys() after " + what)
    require(len(d) == len(model), "len after " + what, got=len(d))
    for s, v in model:
        require(d[s] == v and d[s.upper()] == v and d[s.lower()] == v, "value of %s after %s" % (s, what), got=d.get(s))
    for k in KEYS:
        require((k in d) == (find(model, k) >= 0), "membership of %s after %s" % (k, what))
        require(d.get(k, None) == (model[find(model, k)][1] if find(model, k) >= 0 else None), "get(%s) after %s" % (k, what))
    require(list(d.items()) == [(s, v) for s, v in model], "items() after " + what)
    require(d.dump() == render(model), "dump after " + what, got=d.dump(), want=render(model))


def apply_op(d, model, op, ki, ri, step):
    k, r = KEYS[ki], KEYS[ri]
    before = list(model)
    if op == 0:
        v = ["v%d" % step, "", "\n x", "w"][(ki + 2 * step + ri) % 4]
        d[k] = v
        i = find(model, k)
        if i >= 0:
            model[i] = (model[i][0], v)
        else:
            model.append((k, v))
        return d
    if op == 1:
        i = find(model, k)
        try:
            del d[k]
        except KeyError:
            require(i < 0, "KeyError deleting a present key", k=k)
            return d
        require(i >= 0, "deleting a missing key did not raise KeyError", k=k)
        del model[i]
        return d
    if op == 2:
        i = find(model, k)
        try:
            v = d[k]
        except KeyError:
            require(i < 0, "KeyError reading a present key", k=k)
            return d
        require(i >= 0 and v == model[i][1], "lookup", k=k, got=v)
        return d
    if op == 3:
        require((k in d) == (find(model, k) >= 0), "membership", k=k)
        return d
    if op in (4, 5):
        i = find(model, k)
        try:
            d.order_first(k) if op == 4 else d.order_last(k)
        except KeyError:
            require(i < 0, "KeyError reordering a present key", k=k)
            return d
        require(i >= 0, "reordering a missing key did not raise KeyError", k=k)
        item = model.pop(i)
        model.insert(0, item) if op == 4 else model.append(item)
        return d
    if op in (6, 7):
        i, j = find(model, k), find(model, r)
        same = k.lower() == r.lower()
        try:
            d.order_before(k, r) if op == 6 else d.order_after(k, r)
        except KeyError:
            require(i < 0 or j < 0, "KeyError although both keys are present", k=k, r=r)
            return d
        except ValueError:
            require(same, "ValueError although the keys differ", k=k, r=r)
            return d
        require(i >= 0 and j >= 0 and not same, "relative reorder should have raised", k=k, r=r)
        item = model.pop(i)
        j = find(model, r)
        model.insert(j if op == 6 else j + 1, item)
        return d
    if op == 8:
        d.sort_fields()
        model.sort(key=lambda sv: sv[0].lower())
        return d
    if op == 9:
        c = d.copy()
        require(type(c) is type(d), "copy() changes the class")
        check(d, model, "copy (original)")
        return c
    text = d.dump()
    return Deb822(text)


def initial(kind, i0, i1, i2, n0):
    model = []
    if kind == "empty":
        d = Deb822()
        for idx in (i0, i1, i2)[:n0]:
            k = KEYS[idx]
            v = "init-" + k
            d[k] = v
            j = find(model, k)
            if j >= 0:
                model[j] = (model[j][0], v)
            else:
                model.append((k, v))
    elif kind == "dict":
        d = Deb822({"A": "1", "b-C": "2", "Xy": "3"})
        model = [("A", "1"), ("b-C", "2"), ("Xy", "3")]
    elif kind == "list":
        d = Deb822({"b": "1", "a": "2"})
        model = [("b", "1"), ("a", "2")]
    else:
        d = Deb822("a: 1\nB-c:\nb:\n x\n# comment\nXy: 3\n multi\n")
        model = [("a", "1"), ("B-c", ""), ("b", "\n x"), ("Xy", "3\n multi")]
    return d, model


def h_hist(params, i0: int, i1: int, i2: int, o1: int, k1: int, r1: int, o2: int, k2: int, r2: int, o3: int, k3: int, r3: int):
    kind, n0, steps = params["init"], params.get("n0", 0), params["steps"]
    nk = len(KEYS)
    idx = [i0, i1, i2]
    for t in range(3):
        if kind == "empty" and t < n0:
            assume(0 <= idx[t] < nk)
        else:
            assume(idx[t] == 0)
    ops = [(o1, k1, r1), (o2, k2, r2), (o3, k3, r3)]
    for t, (o, k, r) in enumerate(ops):
        if t < steps:
            assume(0 <= o < NOPS)
            if t == 0 and "first" in params:
                assume(o in params["first"])
            assume(0 <= k < nk)
            if o in (6, 7):
                assume(0 <= r < nk)
            elif o == 0:
                assume(0 <= r < 2)          # selects the kind of value that is assigned
            else:
                assume(r == 0)
            if o in (8, 9, 10):
                assume(k == 0)
        else:
            assume((o == 0) & (k == 0) & (r == 0))
    d, model = initial(kind, i0, i1, i2, n0)
    check(d, model, "initialisation")
    for t in range(steps):
        o, k, r = ops[t]
        snapshot = list(model)
        d = apply_op(d, model, o, k, r, t)
        check(d, model, "%s (step %d)" % (OPN[o], t + 1))
        if model == snapshot:
            reach(params, "unchanged")
    # indistinguishable from a freshly built mapping: one more operation behaves the same
    fresh = Deb822(dict(model))
    check(fresh, model, "rebuild")
    d.order_last(model[0][0]) if model else None
    fresh.order_last(model[0][0]) if model else None
    require(list(d) == list(fresh), "mapping differs from a freshly built one under a further operation", got=list(d), want=list(fresh))


def h_symkey(params, k: str, o: int):
    """One fully symbolic one-character key against a mapping holding 'a', 'K', 'ß' style keys."""
    assume(len(k) == 1)
    c = ord(k)
    assume((c != 58) & (c > 32) & (c != 35) & (c != 45) & (c < 0x250))
    assume(0 <= o < 3)
    d = Deb822()
    d["a"] = "1"
    d["K"] = "2"
    want_in = (k.lower() == "a") | (k.lower() == "k")
    if o == 0:
        require((k in d) == want_in, "membership of a symbolic key", k=k)
    elif o == 1:
        d[k] = "9"
        if want_in:
            require(len(d) == 2 and list(d) == ["a", "K"], "case variant created a second key", k=k, keys=list(d))
        else:
            require(len(d) == 3 and list(d)[2] == k, "new key not appended with its spelling", k=k, keys=list(d))
        require(d[k] == "9", "value of symbolic key")
    else:
        try:
            del d[k]
        except KeyError:
            require(not want_in, "KeyError for a present key", k=k)
            return
        require(want_in and len(d) == 1, "delete of symbolic key", k=k)


def partitions(tier, seed):
    P = []
    q = tier == "quick"
    groups = [("rw", [0, 1, 2, 3]), ("abs", [4, 5]), ("rel", [6, 7]), ("whole", [8, 9, 10])]
    for n0 in (0, 1, 2) if q else (0, 1, 2, 3):
        for g, ops in groups:
            P.append(dict(name="step1/empty%d/%s" % (n0, g), harness="h_hist", params=dict(init="empty", n0=n0, steps=1, first=ops),
                          budget=100 if q else 900, reach=[], bounds="state from %d insertions (all key choices), one operation of group %s, all operands" % (n0, g)))
    for kind in ("dict", "parsed", "list"):
        for g, ops in groups:
            P.append(dict(name="step1/%s/%s" % (kind, g), harness="h_hist", params=dict(init=kind, steps=1, first=ops),
                          budget=100 if q else 900, reach=[], bounds="%s-initialised paragraph, one operation of group %s" % (kind, g)))
    for kind, n0 in ((("empty", 1), ("parsed", 0)) if q else (("empty", 1), ("empty", 2), ("parsed", 0), ("dict", 0), ("list", 0))):
        for g, ops in groups:
            P.append(dict(name="step2/%s%d/%s-first" % (kind, n0, g), harness="h_hist", params=dict(init=kind, n0=n0, steps=2, first=ops),
                          budget=100 if q else 1800, reach=[], bounds="two operations, first from group %s, second any" % g))
    if not q:
        for kind, n0 in (("empty", 1), ("parsed", 0)):
            for g, ops in groups:
                P.append(dict(name="step3/%s%d/%s-first" % (kind, n0, g), harness="h_hist", params=dict(init=kind, n0=n0, steps=3, first=ops),
                              budget=3000, reach=[], bounds="three operations, first from group %s" % g))
    P.append(dict(name="symbolic-key", harness="h_symkey", params={}, budget=100 if q else 900, reach=[],
                  bounds="one fully symbolic one-character key (code points < U+0250): in / set / delete"))
    return P
