"""Schema-valid evidence writer (DESIGN.md section 5)."""
import hashlib
import importlib
import inspect
import json
import os

ROOT = os.path.dirname(os.path.dirname(os.path.abspath(__file__)))


def resolve(qual):
    parts = qual.split(".")
    for i in range(len(parts), 0, -1):
        try:
            obj = importlib.import_module(".".join(parts[:i]))
        except ImportError:
            continue
        for p in parts[i:]:
            # private (name-mangled) attributes
            if p.startswith("__") and not p.endswith("__") and inspect.isclass(obj):
                p = "_%s%s" % (obj.__name__.lstrip("_"), p)
            obj = getattr(obj, p)
        return obj
    raise ImportError(qual)


def functions_encoded(quals):
    out = []
    for q in quals:
        try:
            obj = resolve(q)
            if isinstance(obj, (staticmethod, classmethod)):
                obj = obj.__func__
            if isinstance(obj, property):
                obj = obj.fget
            src = inspect.getsource(obj)
            out.append({"name": q, "sha1": hashlib.sha1(src.encode()).hexdigest()[:12],
                        "lines": src.count("\n")})
        except Exception as e:
            out.append({"name": q, "missing": repr(e)[:100]})
    return out


def write(prop, tier, seed, coverage, assumptions, wall_s, violations):
    evdir = os.environ.get("VERIF_EVIDENCE_DIR") or os.path.join(ROOT, "evidence")
    os.makedirs(evdir, exist_ok=True)
    rec = {
        "property_id": prop,
        "tier": tier,
        "seed": seed,
        "level": "model_checking",
        "coverage": coverage,
        "assumptions": assumptions,
        "wall_s": round(wall_s, 2),
        "violations": violations,
    }
    path = os.path.join(evdir, prop + ".json")
    tmp = path + ".tmp"
    with open(tmp, "w") as f:
        json.dump(rec, f, indent=1, ensure_ascii=True, default=repr)
    os.replace(tmp, path)
    return path
