"""Harness helpers.  No CrossHair / z3 import here: harnesses are also executed
by plain CPython when a counterexample is replayed (DESIGN.md rule 1.2)."""
import warnings


class Skip(Exception):
    """The harness arguments are outside the property's domain (precondition)."""


class Violation(AssertionError):
    """The property's oracle failed on the real code."""


class Reached(Exception):
    """Reachability twin: the labelled point of the harness was reached."""


def reach(params, label):
    """Marks a point that the vacuity guard must be able to reach (DESIGN.md rule 1.4)."""
    if params.get("reach") == label:
        raise Reached(label)


def assume(cond, why=""):
    if not cond:
        raise Skip(why)


def require(cond, msg, **details):
    if not cond:
        if details:
            msg = msg + " | " + ", ".join("%s=%r" % kv for kv in details.items())
        raise Violation(msg)


class catch_warnings_list:
    """warnings.catch_warnings(record=True) that is safe under tracing."""

    def __enter__(self):
        self._cm = warnings.catch_warnings(record=True)
        self.log = self._cm.__enter__()
        warnings.simplefilter("always")
        return self.log

    def __exit__(self, *a):
        return self._cm.__exit__(*a)


def fixed_len_str(s, n):
    """Precondition helper: |s| == n (one solver decision, no per-char fork)."""
    assume(len(s) == n)
    return s


def in_ranges(c, ranges):
    """Non-forking membership of ord(c) in a list of inclusive ranges."""
    o = ord(c)
    ok = False
    for lo, hi in ranges:
        ok = ok | ((lo <= o) & (o <= hi))
    return ok
