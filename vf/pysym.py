"""Engine C: a small merging symbolic interpreter for Python kernels (DESIGN.md 2.4, 8).

`Interp.call(fn, args)` executes the *current source* of a Python function on
symbolic values and returns ONE z3 term for its result (both arms of every
symbolic `if` are executed and merged with `ite`).  Loops are unrolled up to a
bound; for every loop an *unwinding obligation* is recorded and must be proven
separately (otherwise the result is reported as `bound too small`).

Supported subset (anything else raises NotEncodable with the source line):
  statements  assignment to names, augmented assignment, if/elif/else, while, return,
              pass, expression statements (docstrings, `x.pop(0)`)
  expressions names, constants, comparisons, `and`/`or`/`not` (with Python's value
              semantics for `x or default`), + - * on ints, unary minus,
              s[i] on strings, len(), int() of a digit string, ord(), str(),
              list comprehension over a string, list.pop(0), truthiness of
              str/list/None/int, `is None`, isinstance(x, BaseVersion),
              calls of other functions/methods of the same class (inlined from their
              own current source), pattern.match(s) / pattern.findall(s) for the
              pattern shapes recognised from the LIVE compiled pattern object.
Values: Python constants; z3 Int/Bool terms; SStr(len, ch[0..n)); SList(len, items);
        SOpt(isnone, SStr); Obj(attrs).
"""
import ast
import inspect
import re
import textwrap

import z3

try:
    import re._parser as sre_parse
    import re._constants as sre_c
except ImportError:  # pragma: no cover
    import sre_parse
    import sre_constants as sre_c


class NotEncodable(Exception):
    pass


# ------------------------------------------------------------------ values
class SStr:
    def __init__(self, length, ch):
        self.len = length          # int or z3 Int
        self.ch = list(ch)         # ints or z3 Ints; ch[i] == 0 for i >= len (canonical padding)

    @property
    def n(self):
        return len(self.ch)


class SList:
    def __init__(self, length, items, kind):
        self.len = length
        self.items = list(items)
        self.kind = kind           # "int" | "str"


class SOpt:
    """Optional[str]"""

    def __init__(self, isnone, val):
        self.isnone = isnone
        self.val = val


class Obj:
    def __init__(self, attrs, cls=None):
        self.attrs = attrs
        self.cls = cls


class MatchResult:
    """Truthiness-only model of re.Match | None."""

    def __init__(self, ok):
        self.ok = ok


def is_sym(x):
    return isinstance(x, z3.ExprRef)


def I(x):
    return z3.IntVal(x) if isinstance(x, int) and not isinstance(x, bool) else x


def B(x):
    return z3.BoolVal(x) if isinstance(x, bool) else x


def And(*xs):
    ys = []
    for x in xs:
        if x is True:
            continue
        if x is False:
            return False
        ys.append(x)
    if not ys:
        return True
    return ys[0] if len(ys) == 1 else z3.And(*ys)


def Or(*xs):
    ys = []
    for x in xs:
        if x is False:
            continue
        if x is True:
            return True
        ys.append(x)
    if not ys:
        return False
    return ys[0] if len(ys) == 1 else z3.Or(*ys)


def Not(x):
    if isinstance(x, bool):
        return not x
    return z3.Not(x)


def fold(x):
    """Cheap constant folding of a z3 Bool/Int."""
    if not is_sym(x):
        return x
    s = z3.simplify(x)
    if z3.is_true(s):
        return True
    if z3.is_false(s):
        return False
    if z3.is_int_value(s):
        return s.as_long()
    return s


def lift_str(s, n):
    assert len(s) <= n, (s, n)
    return SStr(len(s), [ord(c) for c in s] + [0] * (n - len(s)))


def pad(s, n):
    if s.n >= n:
        return s
    return SStr(s.len, s.ch + [0] * (n - s.n))


def ite(c, a, b):
    """Structural if-then-else over all value kinds."""
    if c is True:
        return a
    if c is False:
        return b
    if a is b:
        return a
    if isinstance(a, MatchResult) or isinstance(b, MatchResult):
        raise NotEncodable("merge of match objects")
    if a is None and b is None:
        return None
    if isinstance(a, (SStr, str, SOpt)) or isinstance(b, (SStr, str, SOpt)) or a is None or b is None:
        if (a is None or isinstance(a, (SStr, str, SOpt))) and (b is None or isinstance(b, (SStr, str, SOpt))):
            return _ite_optstr(c, a, b)
    if isinstance(a, SList) and isinstance(b, SList):
        n = max(len(a.items), len(b.items))
        if a.kind != b.kind:
            raise NotEncodable("merge of lists of different kinds")
        ai = a.items + [_zero(a.kind)] * (n - len(a.items))
        bi = b.items + [_zero(b.kind)] * (n - len(b.items))
        return SList(ite(c, a.len, b.len), [ite(c, x, y) for x, y in zip(ai, bi)], a.kind)
    if isinstance(a, bool) or isinstance(b, bool) or z3.is_bool(a) or z3.is_bool(b):
        if isinstance(a, bool) and isinstance(b, bool) and a == b:
            return a
        return z3.If(c, B(a), B(b))
    if (isinstance(a, int) or (is_sym(a) and z3.is_int(a))) and (isinstance(b, int) or (is_sym(b) and z3.is_int(b))):
        if isinstance(a, int) and isinstance(b, int) and a == b:
            return a
        return z3.If(c, I(a), I(b))
    if isinstance(a, Obj) and isinstance(b, Obj) and a is b:
        return a
    raise NotEncodable("cannot merge %r and %r" % (type(a).__name__, type(b).__name__))


def _zero(kind):
    return 0 if kind == "int" else SStr(0, [])


def _as_opt(x):
    if x is None:
        return SOpt(True, SStr(0, []))
    if isinstance(x, str):
        return SOpt(False, lift_str(x, len(x)))
    if isinstance(x, SStr):
        return SOpt(False, x)
    return x


def _ite_str(c, a, b):
    if isinstance(a, str):
        a = lift_str(a, len(a))
    if isinstance(b, str):
        b = lift_str(b, len(b))
    n = max(a.n, b.n)
    a, b = pad(a, n), pad(b, n)
    return SStr(ite(c, a.len, b.len), [ite(c, x, y) for x, y in zip(a.ch, b.ch)])


def _ite_optstr(c, a, b):
    if isinstance(a, (SStr, str)) and isinstance(b, (SStr, str)):
        return _ite_str(c, a, b)
    a, b = _as_opt(a), _as_opt(b)
    return SOpt(ite(c, a.isnone, b.isnone), _ite_str(c, a.val, b.val))


def truthy(v):
    if isinstance(v, bool):
        return v
    if v is None:
        return False
    if isinstance(v, int):
        return v != 0
    if isinstance(v, str):
        return len(v) > 0
    if isinstance(v, MatchResult):
        return v.ok
    if isinstance(v, SStr):
        return fold(I(v.len) > 0) if is_sym(v.len) else v.len > 0
    if isinstance(v, SList):
        return fold(I(v.len) > 0) if is_sym(v.len) else v.len > 0
    if isinstance(v, SOpt):
        return And(Not(v.isnone), truthy(v.val))
    if isinstance(v, Obj):
        return True
    if is_sym(v):
        if z3.is_bool(v):
            return v
        return v != 0
    raise NotEncodable("truthiness of %r" % (type(v).__name__,))


def str_eq(a, b):
    if isinstance(a, str) and isinstance(b, str):
        return a == b
    if isinstance(a, str):
        a = lift_str(a, len(a))
    if isinstance(b, str):
        b = lift_str(b, len(b))
    n = max(a.n, b.n)
    if not is_sym(a.len) and not is_sym(b.len) and a.len != b.len:
        return False
    a, b = pad(a, n), pad(b, n)
    return And(I(a.len) == I(b.len) if (is_sym(a.len) or is_sym(b.len)) else True,
               *[(I(x) == I(y)) if (is_sym(x) or is_sym(y)) else (x == y) for x, y in zip(a.ch, b.ch)])


# ------------------------------------------------------------------ regex recognisers
def _class_ranges(op, av, flags):
    """Ranges of a single-character regex node (str patterns), or None."""
    from . import re2smt
    tr = re2smt.Tr(re.compile("x", flags & (re.ASCII | re.IGNORECASE | re.DOTALL)))
    return tr.single(op, av)


def pattern_shape(pat):
    """Recognise  C  |  C+ / C* / C{lo,}  |  C1+|C2+|...   from the live pattern's parse tree.
    Returns ("single", ranges, lo) or ("runs", [ranges...])."""
    if isinstance(pat.pattern, bytes):
        raise NotEncodable("bytes pattern")
    tree = list(sre_parse.parse(pat.pattern, pat.flags))
    flags = pat.flags

    def rep(node):
        op, av = node
        if op in (sre_c.MAX_REPEAT, sre_c.MIN_REPEAT):
            lo, hi, sub = av
            sub = list(sub)
            if hi is sre_c.MAXREPEAT and len(sub) == 1:
                r = _class_ranges(sub[0][0], sub[0][1], flags)
                if r is not None:
                    return r, lo
            return None
        r = _class_ranges(op, av, flags)
        if r is not None:
            return r, None
        return None

    if len(tree) == 1:
        op, av = tree[0]
        if op is sre_c.BRANCH:
            alts = []
            for alt in av[1]:
                alt = list(alt)
                if len(alt) != 1:
                    raise NotEncodable("pattern %r: alternative is not a single repeat" % pat.pattern)
                r = rep(alt[0])
                if r is None or r[1] != 1:
                    raise NotEncodable("pattern %r: alternative is not C+" % pat.pattern)
                alts.append(r[0])
            return ("runs", alts)
        r = rep(tree[0])
        if r is not None:
            if r[1] == 1 or r[1] is None:
                return ("single", r[0], 1) if r[1] is None else ("runs1", r[0], 1)
            if r[1] == 0:
                return ("runs1", r[0], 0)
    raise NotEncodable("pattern %r has an unsupported shape" % pat.pattern)


def in_ranges(c, ranges):
    if not is_sym(c):
        return any(lo <= c <= hi for lo, hi in ranges)
    return Or(*[(c == lo) if lo == hi else z3.And(c >= lo, c <= hi) for lo, hi in ranges])


# ------------------------------------------------------------------ interpreter
class Frame:
    def __init__(self, env, guard):
        self.env = env
        self.guard = guard           # path condition under which this frame runs
        self.returned = False        # Bool: a return statement has been executed
        self.retval = None
        self.has_ret = False


class Interp:
    def __init__(self, cls, loop_bound, assumptions=(), strict_int=True):
        self.cls = cls
        self.loop_bound = loop_bound
        self.obligations = []        # (description, z3 Bool that must be UNSAT together with assumptions)
        self.exc = False             # Bool: some modelled operation would raise
        self.assumptions = list(assumptions)
        self.depth = 0
        self.functions_seen = []

    # -- source
    def fn_ast(self, fn):
        if isinstance(fn, (classmethod, staticmethod)):
            fn = fn.__func__
        fn = getattr(fn, "__func__", fn)
        src = textwrap.dedent(inspect.getsource(fn))
        node = ast.parse(src).body[0]
        if not isinstance(node, ast.FunctionDef):
            raise NotEncodable("not a function")
        name = getattr(fn, "__qualname__", fn.__name__)
        if name not in self.functions_seen:
            self.functions_seen.append(name)
        return node, fn

    def call(self, fn, args, guard=True):
        node, pyfn = self.fn_ast(fn)
        params = [a.arg for a in node.args.args]
        if len(params) != len(args):
            raise NotEncodable("arity of %s" % node.name)
        self.depth += 1
        if self.depth > 12:
            raise NotEncodable("call depth")
        fr = Frame(dict(zip(params, args)), guard)
        fr.globals = getattr(pyfn, "__globals__", {})
        self.exec_block(node.body, fr, guard)
        self.depth -= 1
        if not fr.has_ret:
            return None
        return fr.retval

    # -- statements
    def active(self, fr, g):
        return And(g, Not(fr.returned))

    def exec_block(self, stmts, fr, g):
        for st in stmts:
            a = fold(self.active(fr, g)) if is_sym(self.active(fr, g)) else self.active(fr, g)
            if a is False:
                return
            self.exec_stmt(st, fr, g)

    def assign(self, fr, g, name, val):
        a = self.active(fr, g)
        if name in fr.env and a is not True:
            try:
                fr.env[name] = ite(a, val, fr.env[name])
            except NotEncodable:
                # types differ and the old value is dead on this path
                fr.env[name] = val
        else:
            fr.env[name] = val

    def exec_stmt(self, st, fr, g):
        self.line = getattr(st, "lineno", 0)
        if isinstance(st, ast.Expr):
            if isinstance(st.value, ast.Constant):
                return
            self.eval(st.value, fr, g)
            return
        if isinstance(st, ast.Pass):
            return
        if isinstance(st, ast.Assign):
            if len(st.targets) != 1 or not isinstance(st.targets[0], ast.Name):
                raise NotEncodable("assignment target (line %d)" % st.lineno)
            v = self.eval(st.value, fr, g)
            self.assign(fr, g, st.targets[0].id, v)
            return
        if isinstance(st, ast.AugAssign):
            if not isinstance(st.target, ast.Name):
                raise NotEncodable("augmented assignment target")
            cur = self.eval(st.target, fr, g)
            v = self.binop(st.op, cur, self.eval(st.value, fr, g))
            self.assign(fr, g, st.target.id, v)
            return
        if isinstance(st, ast.Return):
            v = self.eval(st.value, fr, g) if st.value is not None else None
            a = self.active(fr, g)
            if fr.has_ret:
                fr.retval = ite(a, v, fr.retval)
            else:
                fr.retval = v
                fr.has_ret = True
            fr.returned = Or(fr.returned, a) if a is not True else True
            if is_sym(fr.returned):
                fr.returned = fold(fr.returned)
            return
        if isinstance(st, ast.If):
            c = truthy(self.eval(st.test, fr, g))
            c = fold(c) if is_sym(c) else c
            if c is True:
                self.exec_block(st.body, fr, g)
                return
            if c is False:
                self.exec_block(st.orelse, fr, g)
                return
            env0 = fr.env
            env_t = dict(env0)
            fr.env = env_t
            self.exec_block(st.body, fr, And(g, c))
            env_f = dict(env0)
            fr.env = env_f
            self.exec_block(st.orelse, fr, And(g, Not(c)))
            merged = {}
            for k in set(env_t) | set(env_f):
                if k in env_t and k in env_f:
                    if env_t[k] is env_f[k]:
                        merged[k] = env_t[k]
                    else:
                        try:
                            merged[k] = ite(c, env_t[k], env_f[k])
                        except NotEncodable:
                            merged[k] = env_t[k] if k not in env0 else env0[k]
                else:
                    merged[k] = env_t.get(k, env_f.get(k))
            fr.env = merged
            return
        if isinstance(st, ast.While):
            if st.orelse:
                raise NotEncodable("while/else")
            for k in range(self.loop_bound):
                c = truthy(self.eval(st.test, fr, g))
                c = fold(c) if is_sym(c) else c
                gi = And(g, c)
                a = self.active(fr, gi)
                a = fold(a) if is_sym(a) else a
                if a is False:
                    return
                self.exec_block(st.body, fr, gi)
                g = gi
            c = truthy(self.eval(st.test, fr, g))
            rest = self.active(fr, And(g, c))
            rest = fold(rest) if is_sym(rest) else rest
            if rest is not False:
                self.obligations.append(("loop at line %d exceeds %d iterations" % (st.lineno, self.loop_bound), B(rest)))
            return
        raise NotEncodable("statement %s (line %d)" % (type(st).__name__, getattr(st, "lineno", 0)))

    # -- expressions
    def eval(self, e, fr, g):
        if isinstance(e, ast.Constant):
            return e.value
        if isinstance(e, ast.Name):
            if e.id in fr.env:
                return fr.env[e.id]
            if e.id in ("None", "True", "False"):
                return {"None": None, "True": True, "False": False}[e.id]
            gl = getattr(fr, "globals", {})
            if e.id in gl:
                return PyRef(gl[e.id])
            import builtins
            if hasattr(builtins, e.id):
                return PyRef(getattr(builtins, e.id))
            raise NotEncodable("unbound name %s" % e.id)
        if isinstance(e, ast.Attribute):
            base = self.eval(e.value, fr, g)
            if isinstance(base, Obj):
                if e.attr in base.attrs:
                    return base.attrs[e.attr]
                if base.cls is not None and hasattr(base.cls, e.attr):
                    raw = inspect.getattr_static(base.cls, e.attr)
                    if isinstance(raw, classmethod):
                        return BoundRef(raw.__func__, PyRef(base.cls))
                    if isinstance(raw, staticmethod):
                        return PyRef(raw.__func__)
                    if inspect.isfunction(raw):
                        return BoundRef(raw, base)
                    return PyRef(getattr(base.cls, e.attr))
                raise NotEncodable("attribute %s" % e.attr)
            if isinstance(base, PyRef):
                tgt = base.obj
                raw = inspect.getattr_static(tgt, e.attr) if inspect.isclass(tgt) else getattr(tgt, e.attr)
                if isinstance(raw, classmethod):
                    return BoundRef(raw.__func__, base)
                if isinstance(raw, staticmethod):
                    return PyRef(raw.__func__)
                if inspect.isfunction(raw) and inspect.isclass(tgt):
                    return PyRef(raw)
                return PyRef(getattr(tgt, e.attr))
            if isinstance(base, (SList,)) and e.attr == "pop":
                return ("pop", e.value)
            raise NotEncodable("attribute access .%s on %s (line %d)" % (e.attr, type(base).__name__, e.lineno))
        if isinstance(e, ast.UnaryOp):
            v = self.eval(e.operand, fr, g)
            if isinstance(e.op, ast.Not):
                return Not(truthy(v))
            if isinstance(e.op, ast.USub):
                return -v if not is_sym(v) else -v
            raise NotEncodable("unary op")
        if isinstance(e, ast.BinOp):
            return self.binop(e.op, self.eval(e.left, fr, g), self.eval(e.right, fr, g))
        if isinstance(e, ast.BoolOp):
            vals = e.values
            cur = self.eval(vals[0], fr, g)
            for nxt in vals[1:]:
                t = truthy(cur)
                t = fold(t) if is_sym(t) else t
                if isinstance(e.op, ast.And):
                    if t is False:
                        return cur
                    if t is True:
                        cur = self.eval(nxt, fr, g)
                        continue
                    rhs = self.eval(nxt, fr, And(g, t))
                    cur = self._merge_boolop(t, rhs, cur)
                else:
                    if t is True:
                        return cur
                    if t is False:
                        cur = self.eval(nxt, fr, g)
                        continue
                    rhs = self.eval(nxt, fr, And(g, Not(t)))
                    if isinstance(cur, SOpt) and isinstance(rhs, (str, SStr)):
                        cur = cur.val        # truthy => not None
                    cur = self._merge_boolop(t, cur, rhs)
            return cur
        if isinstance(e, ast.Compare):
            left = self.eval(e.left, fr, g)
            res = True
            for op, right_e in zip(e.ops, e.comparators):
                right = self.eval(right_e, fr, g)
                res = And(res, self.compare(op, left, right))
                left = right
            return res
        if isinstance(e, ast.Subscript):
            base = self.eval(e.value, fr, g)
            idx = self.eval(e.slice, fr, g)
            return self.subscript(base, idx, fr, g)
        if isinstance(e, ast.ListComp):
            return self.listcomp(e, fr, g)
        if isinstance(e, ast.Call):
            return self.call_expr(e, fr, g)
        if isinstance(e, ast.IfExp):
            c = truthy(self.eval(e.test, fr, g))
            c = fold(c) if is_sym(c) else c
            if c is True:
                return self.eval(e.body, fr, g)
            if c is False:
                return self.eval(e.orelse, fr, g)
            return ite(c, self.eval(e.body, fr, And(g, c)), self.eval(e.orelse, fr, And(g, Not(c))))
        raise NotEncodable("expression %s (line %d)" % (type(e).__name__, getattr(e, "lineno", 0)))

    def _merge_boolop(self, t, a, b):
        # value semantics: result is `a` when t else `b`
        try:
            return ite(t, a, b)
        except NotEncodable:
            return ite(t, truthy(a), truthy(b))

    def binop(self, op, a, b):
        if isinstance(a, (SStr, str)) and isinstance(b, (SStr, str)) and isinstance(op, ast.Add):
            raise NotEncodable("string concatenation")
        for v in (a, b):
            if not (isinstance(v, int) or (is_sym(v) and z3.is_int(v))):
                raise NotEncodable("arithmetic on %s" % type(v).__name__)
        if isinstance(op, ast.Add):
            return a + b
        if isinstance(op, ast.Sub):
            return a - b
        if isinstance(op, ast.Mult):
            if is_sym(a) and is_sym(b):
                raise NotEncodable("symbolic * symbolic")
            return a * b
        raise NotEncodable("binary op %s" % type(op).__name__)

    def compare(self, op, a, b):
        if isinstance(op, (ast.Is, ast.IsNot)):
            if b is not None and a is not None:
                raise NotEncodable("`is` on non-None")
            x = a if b is None else b
            if x is None:
                r = True
            elif isinstance(x, SOpt):
                r = x.isnone
            else:
                r = False
            return r if isinstance(op, ast.Is) else Not(r)
        if isinstance(a, SOpt) or isinstance(b, SOpt):
            raise NotEncodable("comparison of optional string")
        if isinstance(a, (SStr, str)) and isinstance(b, (SStr, str)):
            if isinstance(op, ast.Eq):
                return str_eq(a, b)
            if isinstance(op, ast.NotEq):
                return Not(str_eq(a, b))
            raise NotEncodable("ordering of strings")
        if isinstance(a, (SStr, str)) or isinstance(b, (SStr, str)):
            if isinstance(op, ast.Eq):
                return False
            if isinstance(op, ast.NotEq):
                return True
            raise NotEncodable("comparison str/int")
        for v in (a, b):
            if isinstance(v, bool) or not (isinstance(v, int) or (is_sym(v) and z3.is_int(v))):
                if isinstance(v, bool) or (is_sym(v) and z3.is_bool(v)):
                    continue
                raise NotEncodable("comparison of %s" % type(v).__name__)
        if isinstance(op, ast.Lt):
            return a < b
        if isinstance(op, ast.LtE):
            return a <= b
        if isinstance(op, ast.Gt):
            return a > b
        if isinstance(op, ast.GtE):
            return a >= b
        if isinstance(op, ast.Eq):
            return a == b
        if isinstance(op, ast.NotEq):
            return a != b
        raise NotEncodable("comparison op %s" % type(op).__name__)

    def char_at(self, s, i, g):
        """s[i] as a one-character SStr; IndexError is recorded as an exception condition."""
        if isinstance(s, str):
            s = lift_str(s, len(s))
        oob = Or(I(i) < 0, I(i) >= I(s.len)) if (is_sym(i) or is_sym(s.len)) else (i < 0 or i >= s.len)
        if oob is True:
            self.exc = Or(self.exc, g)
            return SStr(1, [0])
        if oob is not False:
            self.exc = Or(self.exc, And(g, oob))
        if not is_sym(i):
            return SStr(1, [s.ch[i] if i < s.n else 0])
        c = I(0)
        for k in reversed(range(s.n)):
            c = z3.If(i == k, I(s.ch[k]), c)
        return SStr(1, [c])

    def subscript(self, base, idx, fr, g):
        if isinstance(base, (SStr, str)):
            if isinstance(idx, (int,)) or (is_sym(idx) and z3.is_int(idx)):
                return self.char_at(base, idx, self.active(fr, g))
        raise NotEncodable("subscript on %s" % type(base).__name__)

    def listcomp(self, e, fr, g):
        if len(e.generators) != 1 or e.generators[0].ifs or not isinstance(e.generators[0].target, ast.Name):
            raise NotEncodable("list comprehension shape")
        it = self.eval(e.generators[0].iter, fr, g)
        if isinstance(it, str):
            it = lift_str(it, len(it))
        if not isinstance(it, SStr):
            raise NotEncodable("comprehension over %s" % type(it).__name__)
        var = e.generators[0].target.id
        items = []
        for k in range(it.n):
            inside = (I(k) < I(it.len)) if is_sym(it.len) else (k < it.len)
            inside = fold(inside) if is_sym(inside) else inside
            if inside is False:
                items.append(0)
                continue
            sub = Frame(dict(fr.env), g)
            sub.globals = getattr(fr, "globals", {})
            sub.env[var] = SStr(1, [it.ch[k]])
            v = self.eval(e.elt, sub, And(self.active(fr, g), inside))
            if isinstance(v, (SStr, str)):
                raise NotEncodable("comprehension producing strings")
            items.append(ite(inside, v, 0) if inside is not True else v)
        return SList(it.len, items, "int")

    def call_expr(self, e, fr, g):
        f = e.func
        if e.keywords:
            raise NotEncodable("keyword arguments")
        # list.pop(0)
        if isinstance(f, ast.Attribute) and f.attr == "pop" and isinstance(f.value, ast.Name):
            lst = self.eval(f.value, fr, g)
            if isinstance(lst, SList):
                if len(e.args) != 1 or not (isinstance(e.args[0], ast.Constant) and e.args[0].value == 0):
                    raise NotEncodable("only pop(0) is modelled")
                a = self.active(fr, g)
                empty = (I(lst.len) <= 0) if is_sym(lst.len) else (lst.len <= 0)
                self.exc = Or(self.exc, And(a, empty))
                head = lst.items[0] if lst.items else _zero(lst.kind)
                shifted = SList(lst.len - 1, lst.items[1:] + [_zero(lst.kind)], lst.kind)
                self.assign(fr, g, f.value.id, shifted)
                return head
        fn = self.eval(f, fr, g)
        args = [self.eval(a, fr, g) for a in e.args]
        a = self.active(fr, g)
        if isinstance(fn, BoundRef):
            tgt = fn.fn
            if isinstance(tgt, re.Pattern.__class__):
                pass
            if callable(tgt) and inspect.isfunction(tgt):
                return self.call(tgt, [fn.selfval] + args, a)
            raise NotEncodable("bound call of %r" % (tgt,))
        if isinstance(fn, PyRef):
            o = fn.obj
            if o is int:
                return self.to_int(args[0], a)
            if o is ord:
                s = args[0]
                if isinstance(s, str):
                    return ord(s)
                return s.ch[0]
            if o is len:
                s = args[0]
                if isinstance(s, str):
                    return len(s)
                return s.len
            if o is str:
                if isinstance(args[0], (SStr, str)):
                    return args[0]
                if isinstance(args[0], Obj) and "__str__" in args[0].attrs:
                    return args[0].attrs["__str__"]
                raise NotEncodable("str() of %s" % type(args[0]).__name__)
            if o is isinstance:
                if isinstance(args[0], Obj) and isinstance(args[1], PyRef) and inspect.isclass(args[1].obj):
                    return args[0].cls is not None and issubclass(args[0].cls, args[1].obj)
                raise NotEncodable("isinstance")
            if inspect.isbuiltin(o) and getattr(o, "__self__", None).__class__ is re.Pattern:
                return self.regex_call(o.__self__, o.__name__, args, a)
            if inspect.isbuiltin(o) and isinstance(getattr(o, "__self__", None), dict) and o.__name__ == "get" and len(args) in (1, 2):
                return self.dict_lookup(o.__self__, args[0], args[1] if len(args) == 2 else None, a, strict=False)
            if inspect.isfunction(o):
                return self.call(o, args, a)
            if inspect.ismethod(o):
                return self.call(o.__func__, [PyRef(o.__self__)] + args, a)
        raise NotEncodable("call of %s (line %d)" % (ast.unparse(f), e.lineno))

    def dict_lookup(self, d, key, default, a, strict):
        """Look-up of a symbolic string in a *concrete* dict {str: int} read from the live object (a table built at
        import time): a chain of if-then-else over the table's keys.  strict: a missing key raises KeyError."""
        if not isinstance(key, (SStr, str)) or not all(isinstance(k, str) and isinstance(v, int) and not isinstance(v, bool) for k, v in d.items()):
            raise NotEncodable("dict look-up other than {str: int}[str]")
        if default is None and not strict:
            raise NotEncodable("dict.get() returning None")
        if isinstance(key, str):
            if key in d:
                return d[key]
            if strict:
                self.exc = Or(self.exc, a)
                return 0
            return default
        res = default if not strict else 0
        hit = False
        for k, v in d.items():
            if len(k) > key.n:
                continue
            c = str_eq(key, k)
            res = ite(c, v, res)
            hit = Or(hit, c)
        if strict:
            self.exc = Or(self.exc, And(a, Not(hit)))
        return res

    def to_int(self, s, a):
        if isinstance(s, int) or (is_sym(s) and z3.is_int(s)):
            return s
        if isinstance(s, str):
            return int(s)
        if isinstance(s, SOpt):
            self.exc = Or(self.exc, And(a, s.isnone))       # int(None) -> TypeError
            s = s.val
        if not isinstance(s, SStr):
            raise NotEncodable("int() of %s" % type(s).__name__)
        # all characters must be ASCII digits and len >= 1, otherwise ValueError (or a Unicode digit)
        bad = (I(s.len) < 1) if is_sym(s.len) else (s.len < 1)
        val = 0
        for k in range(s.n):
            inside = (I(k) < I(s.len)) if is_sym(s.len) else (k < s.len)
            if inside is False:
                continue
            c = s.ch[k]
            isd = in_ranges(c, [(48, 57)])
            bad = Or(bad, And(inside, Not(isd)))
            val = ite(inside, val * 10 + (c - 48), val)
        self.exc = Or(self.exc, And(a, bad))
        return val

    def regex_call(self, pat, meth, args, a):
        s = args[0]
        if isinstance(s, str):
            s = lift_str(s, len(s))
        if not isinstance(s, SStr):
            raise NotEncodable("regex on %s" % type(s).__name__)
        shape = pattern_shape(pat)
        if meth == "match":
            if shape[0] in ("single", "runs1"):
                ranges, lo = shape[1], shape[2]
                if lo == 0:
                    return MatchResult(True)
                nonempty = (I(s.len) > 0) if is_sym(s.len) else (s.len > 0)
                return MatchResult(And(nonempty, in_ranges(s.ch[0], ranges)) if s.n else False)
            raise NotEncodable("match() with pattern %r" % pat.pattern)
        if meth == "findall":
            if pat.groups:
                raise NotEncodable("findall with groups")
            if shape[0] == "runs":
                classes = shape[1]
            elif shape[0] == "runs1" and shape[2] == 1:
                classes = [shape[1]]
            else:
                raise NotEncodable("findall() with pattern %r" % pat.pattern)
            return self.findall_runs(s, classes)
        raise NotEncodable("regex method %s" % meth)

    def findall_runs(self, s, classes):
        """findall for C1+|C2+|... : sequential maximal munch, first alternative wins."""
        n = s.n
        cur_prev = -1          # alternative of the run containing the previous char (-1: none)
        starts, inrun, runid = [], [], []
        count = 0
        for i in range(n):
            inside = (I(i) < I(s.len)) if is_sym(s.len) else (i < s.len)
            c = s.ch[i]
            first = -1
            for k in reversed(range(len(classes))):
                first = ite(in_ranges(c, classes[k]), k, first)
            cont = False
            if i > 0:
                cont_k = []
                for k in range(len(classes)):
                    cont_k.append(And(I(cur_prev) == k if is_sym(cur_prev) else cur_prev == k, in_ranges(c, classes[k])))
                cont = Or(*cont_k)
            cur = ite(cont, cur_prev, first)
            cur = ite(inside, cur, -1)
            st = And(inside, Not(cont), (I(first) >= 0) if is_sym(first) else first >= 0)
            count = count + ite(st, 1, 0)
            starts.append(st)
            inrun.append((I(cur) >= 0) if is_sym(cur) else cur >= 0)
            runid.append(count - 1)
            cur_prev = cur
        items = []
        for r in range(n):
            # position of char i inside run r: number of chars with runid == r before i
            chars = []
            length = 0
            for i in range(n):
                length = length + ite(And(inrun[i], I(runid[i]) == r), 1, 0)
            for p in range(n):
                cp = 0
                before = 0      # chars of run r seen so far
                for i in range(n):
                    mine = And(inrun[i], I(runid[i]) == r)
                    cp = ite(And(mine, I(before) == p), s.ch[i], cp)
                    before = before + ite(mine, 1, 0)
                chars.append(cp)
            items.append(SStr(length, chars))
        return SList(count, items, "str")


class PyRef:
    """A concrete Python object referenced from the analysed code (class, function, pattern)."""

    def __init__(self, obj):
        self.obj = obj


class BoundRef:
    def __init__(self, fn, selfval):
        self.fn = fn
        self.selfval = selfval


# ------------------------------------------------------------------ helpers for harnesses
def sym_str(name, n, minlen=0):
    """Fresh bounded symbolic string + its well-formedness constraints."""
    L = z3.Int(name + "_len")
    ch = [z3.Int("%s_%d" % (name, i)) for i in range(n)]
    cons = [L >= minlen, L <= n]
    for i, c in enumerate(ch):
        cons.append(z3.If(L > i, z3.And(c >= 1, c <= 0x10FFFF), c == 0))
    return SStr(L, ch), cons


def alphabet(s, ranges):
    """Constraint: every character of s lies in `ranges`."""
    out = []
    for i, c in enumerate(s.ch):
        out.append(z3.Implies(I(s.len) > i, in_ranges(c, ranges)))
    return out


def concrete_str(model, s):
    L = model.eval(I(s.len), model_completion=True).as_long()
    return "".join(chr(model.eval(I(c), model_completion=True).as_long()) for c in s.ch[:L])


def substitute_str(term, s, value):
    """Pairs for z3.substitute binding the symbolic string s to a concrete Python string."""
    pairs = [(s.len, z3.IntVal(len(value)))]
    for i, c in enumerate(s.ch):
        pairs.append((c, z3.IntVal(ord(value[i]) if i < len(value) else 0)))
    return pairs
