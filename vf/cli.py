"""./check <ID> [--tier quick|thorough]   |  ./check replay <file>  |  ./check selftest"""
import argparse
import importlib
import json
import os
import random
import sys
import time

from . import evidence, jsonx, sched

ROOT = sched.ROOT
KNOWN_FILE = os.path.join(ROOT, "known_findings.json")


def load_known(prop):
    try:
        with open(KNOWN_FILE) as f:
            allk = json.load(f)
    except FileNotFoundError:
        return []
    return [k for k in allk.get("findings", []) if k.get("property") == prop]


def _write_replay(prop, tag, cex):
    d = os.path.join(os.environ.get("VERIF_EVIDENCE_DIR") or os.path.join(ROOT, "evidence"), "replays")
    os.makedirs(d, exist_ok=True)
    tag = "".join(c if c.isalnum() or c in "-_." else "_" for c in tag)
    path = os.path.join(d, "%s-%s.json" % (prop, tag))
    with open(path, "w") as f:
        f.write(jsonx.dumps({"property": prop, "harness": cex["harness"],
                             "params": cex["params"], "args": cex["args"],
                             "message": cex.get("message", "")}, indent=1))
    return path


def check(prop, tier, seed, only=None, jobs=None, verbose=False):
    t0 = time.monotonic()
    mod = importlib.import_module("vf.harness." + prop.lower())
    known = load_known(prop)
    known_classes = sorted({k["class"] for k in known if k.get("status") == "known" and k.get("class")})
    violations = []
    known_seen = []
    lines = []

    def say(s):
        print(s, flush=True)

    # 1. known / fixed witnesses are replayed first, on plain CPython
    for k in known:
        w = k.get("witness")
        if not w:
            continue
        params = dict(w.get("params", {}))
        if k.get("status") == "known":
            params["known"] = []          # witness must fail *without* the suppression
        else:
            params["known"] = known_classes
        path = _write_replay(prop, "known-" + k["id"], {"harness": w["harness"], "params": params,
                                                        "args": jsonx.dec(w["args"])})
        r = sched.plain_replay(path)
        if k.get("status") == "known":
            if r["outcome"] == "violation":
                say("KNOWN-FINDING: property=%s %s [%s]" % (prop, k["what"], k["id"]))
                known_seen.append({"id": k["id"], "still_fails": True, "message": r["message"][:300]})
            else:
                say("note: known finding %s no longer reproduces (%s)" % (k["id"], r["outcome"]))
                known_seen.append({"id": k["id"], "still_fails": False, "outcome": r["outcome"]})
        else:  # fixed: ordinary regression input
            if r["outcome"] == "violation":
                violations.append({"replay": path, "message": r["message"], "partition": "fixed-" + k["id"]})
            known_seen.append({"id": k["id"], "fixed": True, "outcome": r["outcome"]})

    # 2. partitions
    jobs_list = mod.partitions(tier, seed)
    if only:
        jobs_list = [j for j in jobs_list if only in j["name"]]
    for j in jobs_list:
        j["property"] = prop
        j.setdefault("params", {})
        j["params"]["known"] = known_classes
    # size the tier by total wall time: scale partition budgets so that the worst case
    # (every partition uses its whole budget) stays within VERIF_QUICK_MIN / VERIF_THOROUGH_MIN minutes
    nworkers = jobs or int(os.environ.get("VERIF_JOBS", "0") or 0) or (os.cpu_count() or 4)
    cap_min = float(os.environ.get("VERIF_THOROUGH_MIN", "30") if tier == "thorough" else os.environ.get("VERIF_QUICK_MIN", "6"))
    total = sum(float(j.get("budget", 60)) for j in jobs_list)
    if total > 0 and total / nworkers > cap_min * 60:
        f = cap_min * 60 * nworkers / total
        for j in jobs_list:
            j["budget"] = max(20.0, float(j.get("budget", 60)) * f)
        say("note: partition budgets scaled by %.2f to keep the %s tier within about %.0f min" % (f, tier, cap_min))
    rnd = random.Random(seed)
    # longest budgets first, ties shuffled by seed
    rnd.shuffle(jobs_list)
    jobs_list.sort(key=lambda j: -float(j.get("budget", 60)))

    results = {}
    artefacts = []
    n_cex = [0]

    def handle(res):
        name = res["name"]
        if verbose:
            say("  [%s] %s (%s) %.1fs" % (res.get("verdict"), name, str(res.get("reason"))[:100], res.get("job_wall_s", 0)))
        results[name] = res

    pending = jobs_list
    for attempt in range(4):
        if not pending:
            break
        done = sched.run_all(pending, workers=jobs, on_done=handle)
        pending = []
        for res in done:
            job = res["_job"]
            real = False
            new_excl = []
            for cex in res.get("counterexamples", []):
                n_cex[0] += 1
                path = _write_replay(prop, "%s-%d" % (res["name"].replace("/", "_")[:60], n_cex[0]), cex)
                r = sched.plain_replay(path)
                cex["replay_outcome"] = r["outcome"]
                if r["outcome"] == "violation":
                    real = True
                    violations.append({"replay": path, "message": r["message"], "partition": res["name"]})
                else:
                    artefacts.append({"partition": res["name"], "args": jsonx.enc(cex["args"]),
                                      "claimed": cex.get("message", "")[:200], "plain": r["outcome"]})
                    new_excl.append(cex["args"])
                    try:
                        os.unlink(path)
                    except OSError:
                        pass
            if res.get("verdict") == "counterexample" and not real:
                res["verdict"] = "inconclusive"
                res["reason"] = "engine artefact (did not reproduce on plain CPython)"
                if job.get("kind", "xh") == "xh" and attempt < 3:
                    j2 = dict(job)
                    j2["exclude"] = (job.get("exclude") or []) + new_excl
                    pending.append(j2)

    # 3. evidence
    per = []
    tot = {"paths": 0, "confirmed_paths": 0, "skipped_paths": 0, "unknown_paths": 0, "refuted_paths": 0}
    q = {"unsat": 0, "sat": 0, "unknown": 0, "not_encodable": 0}
    counts = {"confirmed": 0, "inconclusive": 0, "counterexample": 0}
    solver_s = 0.0
    samples = []
    unwinding = []
    for name in sorted(results):
        r = results[name]
        counts[r.get("verdict", "inconclusive")] = counts.get(r.get("verdict", "inconclusive"), 0) + 1
        st = r.get("stats") or {}
        for k in tot:
            tot[k] += int(st.get(k, 0))
        for k in q:
            q[k] += int((r.get("queries") or {}).get(k, 0))
        solver_s += float(r.get("solver_s", 0) or 0) + float(r.get("cpu_s", 0) or 0)
        if r.get("unwinding"):
            unwinding.extend(r["unwinding"])
        job = r["_job"]
        per.append({"name": name, "engine": r.get("engine", "A"), "verdict": r.get("verdict"),
                    "reason": str(r.get("reason"))[:300], "bounds": job.get("bounds", ""),
                    "paths": st.get("paths"), "queries": r.get("queries"),
                    "wall_s": r.get("job_wall_s"), "unknown_reasons": r.get("unknown_reasons") or None})
        for s in (r.get("samples") or [])[:3]:
            if len(samples) < 12:
                samples.append({"partition": name, "case": s})
    for k in jobs_list[:6]:
        if len(samples) < 12:
            samples.append({"partition": k["name"], "bounds": k.get("bounds", ""), "params": jsonx.enc({a: b for a, b in k.get("params", {}).items() if a != "known"})})
    for v in violations[:5]:
        samples.append({"violation": v})
    evaluations = tot["paths"] + sum(q.values())
    nontrivial = tot["confirmed_paths"] + tot["refuted_paths"] + q["unsat"] + q["sat"]
    cov = {
        "evaluations": evaluations,
        "distinct_nontrivial": nontrivial,
        "rule": ("evaluations = symbolic paths executed by CrossHair (each path is a distinct "
                 "z3-feasible branch assignment, never repeated) + SMT queries discharged by the regex/"
                 "kernel engines; non-trivial = a path that satisfied the harness precondition and ran "
                 "the property's oracle to its end, or a query answered sat/unsat (unknown is not counted)"),
        "samples": samples or [{"note": "no partitions run"}],
        "exhaustive": False,
        "engines": sorted({p["engine"] for p in per}),
        "functions_encoded": evidence.functions_encoded(getattr(mod, "FUNCTIONS", [])),
        "partitions": counts,
        "partition_detail": per,
        "paths": tot,
        "queries": q,
        "solver_and_tracing_cpu_s": round(solver_s, 1),
        "unwinding_assertions": unwinding,
        "stubs": getattr(mod, "STUBS", []),
        "outside_claim": getattr(mod, "OUTSIDE", []),
        "known_findings_seen": known_seen,
        "engine_artefacts": artefacts[:20],
        "crosshair_model_repairs": _repairs(),
    }
    wall = time.monotonic() - t0
    evidence.write(prop, tier, seed, cov, getattr(mod, "ASSUMPTIONS", []), wall, len(violations))
    say("%s tier=%s partitions: %s paths=%d queries=%s wall=%.0fs" % (prop, tier, counts, tot["paths"], q, wall))
    infra = [r for r in results.values() if r.get("worker_error")]
    for r in infra[:5]:
        say("worker error in %s: %s\n%s" % (r["name"], r.get("reason"), r.get("traceback", "")))
    for v in violations:
        say("VIOLATION property=%s replay=%s" % (prop, v["replay"]))
        say("  " + v["message"][:500])
    if violations:
        return 1
    if infra and len(infra) == len(results):
        return 2
    return 0


def _repairs():
    try:
        import ast
        src = open(os.path.join(ROOT, "vf", "xh_plugin.py")).read()
        for node in ast.parse(src).body:
            if isinstance(node, ast.Assign) and getattr(node.targets[0], "id", "") == "REPAIRS":
                return ast.literal_eval(node.value)
    except Exception:
        pass
    return []


def main(argv=None):
    ap = argparse.ArgumentParser()
    ap.add_argument("what")
    ap.add_argument("arg", nargs="?")
    ap.add_argument("--tier", default=os.environ.get("VERIF_TIER") or "quick")
    ap.add_argument("--only", default=None)
    ap.add_argument("--jobs", type=int, default=None)
    ap.add_argument("-v", "--verbose", action="store_true")
    a = ap.parse_args(argv)
    seed = int(os.environ.get("VERIF_SEED", "0") or 0)
    if a.what == "replay":
        r = sched.plain_replay(a.arg)
        print(json.dumps(r, indent=1))
        return 1 if r["outcome"] == "violation" else 0
    if a.what == "selftest":
        return check("selftest", a.tier, seed, only=a.only, jobs=a.jobs, verbose=a.verbose)
    return check(a.what.upper(), a.tier, seed, only=a.only, jobs=a.jobs, verbose=a.verbose)


if __name__ == "__main__":
    sys.exit(main())
