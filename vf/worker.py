"""One partition in a fresh process.  stdin: JSON job; stdout: last line JSON result."""
import importlib
import inspect
import os
import sys
import time
import traceback

from . import jsonx


def _sig_without_params(fn):
    sig = inspect.signature(fn)
    ps = list(sig.parameters.values())[1:]
    return sig.replace(parameters=ps)


def run_job(job):
    mod = importlib.import_module("vf.harness." + job["property"].lower())
    kind = job.get("kind", "xh")
    params = job.get("params", {})
    if kind == "xh":
        from . import xh
        h = getattr(mod, job["harness"])
        sig = _sig_without_params(h)
        excl = job.get("exclude") or []

        def fn(**kw):
            if excl:
                from crosshair.tracers import NoTracing
                from crosshair.core import deep_realize
                from .hx import Skip
                # excluded engine artefacts: compare symbolically (forks, but rare)
                for e in excl:
                    same = True
                    for k, v in e.items():
                        if not (kw[k] == v):
                            same = False
                            break
                    if same:
                        raise Skip("excluded artefact")
            return h(params, **kw)

        res = xh.explore(fn, sig, budget_s=float(job.get("budget", 60)),
                         per_path_timeout=float(job.get("per_path_timeout", max(30.0, float(job.get("budget", 60)) * 0.6))),
                         max_paths=int(job.get("max_paths", 10**9)))
        for c in res["counterexamples"]:
            c["harness"] = job["harness"]
            c["params"] = params
        res["engine"] = "A"
        # vacuity guard: reachability twins (same precondition; must come back 'violated')
        if res["verdict"] == "confirmed" and not job.get("no_twin"):
            from .hx import Reached
            labels = ["end"] + list(job["reach"] if "reach" in job else getattr(mod, "REACH", {}).get(job["harness"], []))
            twins = {}
            for label in labels:
                p2 = dict(params)
                p2["reach"] = label

                def twin(_p2=p2, _label=label, **kw):
                    try:
                        h(_p2, **kw)
                    except Reached:
                        raise AssertionError("reached " + _label)
                    if _label == "end":
                        raise AssertionError("reached end")

                r2 = xh.explore(twin, sig, budget_s=max(10.0, float(job.get("budget", 60)) * 0.7),
                                per_path_timeout=float(job.get("per_path_timeout", max(30.0, float(job.get("budget", 60)) * 0.6))))
                ok = r2["verdict"] == "counterexample"
                twins[label] = jsonx.enc(r2["counterexamples"][0]["args"]) if ok else None
                res["stats"]["paths"] += r2["stats"]["paths"]
            res["twins"] = twins
            res["samples"] = [{"reachability_witness": k, "args": v} for k, v in twins.items() if v is not None][:3]
            missing = [k for k, v in twins.items() if v is None]
            if missing:
                res["verdict"] = "inconclusive"
                res["reason"] = "vacuity guard: reachability twin(s) %s not reached" % missing
        return res
    elif kind == "py":
        f = getattr(mod, job["func"])
        t0 = time.monotonic()
        res = f(params)
        res.setdefault("wall_s", round(time.monotonic() - t0, 3))
        return res
    raise ValueError("unknown job kind %r" % kind)


def main():
    job = jsonx.loads(sys.stdin.read())
    seed = int(os.environ.get("VERIF_SEED", "0") or 0)
    try:
        import z3
        z3.set_param("smt.random_seed", seed % (2**30))
    except Exception:
        pass
    try:
        res = run_job(job)
    except BaseException as e:
        res = {"verdict": "inconclusive", "reason": "worker error: %r" % (e,),
               "traceback": traceback.format_exc()[-4000:], "counterexamples": [],
               "worker_error": True}
    sys.stdout.write("\n@@RESULT@@" + jsonx.dumps(res) + "\n")
    sys.stdout.flush()


if __name__ == "__main__":
    main()
